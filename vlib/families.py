"""Program families for the pipeline properties (C03, C04, C11, C12, C13):

(i)  the repository's own hand-built programs, imported from /repo/tests/resources
     at run time;
(ii) programs produced by the real generator for a fixed list of seeds per language
     (the members are concrete; what is symbolic in the harnesses is the history of
     operations, the RNG of the stage under test and the options).
Everything outside these families (in particular programs of other seeds) is
outside the claims that use them.
"""
import copy
import importlib
import io
import os
import pickle
import sys

from src import utils
from src.ir import ast
from src.generators.generator import Generator
from src.generators.config import cfg
from src.translators.java import JavaTranslator
from src.translators.kotlin import KotlinTranslator
from src.translators.groovy import GroovyTranslator
from src.translators.scala import ScalaTranslator

TRANSLATORS = {'java': JavaTranslator, 'kotlin': KotlinTranslator, 'groovy': GroovyTranslator,
               'scala': ScalaTranslator}
LANGS = ['java', 'kotlin', 'groovy', 'scala']
_CACHE = {}


def fixtures():
    """[(name, Program)] -- fresh deep copies on every call"""
    if 'fixtures' not in _CACHE:
        out = []
        for i in range(1, 13):
            try:
                m = importlib.import_module('tests.resources.program%d' % i)
                out.append(('fixture/program%d' % i, m.program))
            except Exception as e:        # a fixture that does not import is no family member
                out.append(('fixture/program%d' % i, e))
        try:
            m = importlib.import_module('tests.resources.type_analysis_programs')
            for i in range(1, 30):
                p = getattr(m, 'program%d' % i, None)
                if p is not None:
                    out.append(('fixture/type_analysis%d' % i, p))
        except Exception as e:
            out.append(('fixture/type_analysis', e))
        _CACHE['fixtures'] = [(n, p) for n, p in out if isinstance(p, ast.Program)]
        _CACHE['fixture_errors'] = [(n, repr(p)) for n, p in out if not isinstance(p, ast.Program)]
    return [(n, pickle.loads(pickle.dumps(p))) for n, p in _CACHE['fixtures']]


def generate(lang, seed, max_depth=None):
    """one program of the real generator (real RNG, given seed)"""
    old_depth = cfg.limits.max_depth
    if max_depth is not None:
        cfg.limits.max_depth = max_depth
    try:
        utils.random.r.seed(seed)
        utils.random.reset_word_pool()
        g = Generator(language=lang)
        return g.generate()
    finally:
        cfg.limits.max_depth = old_depth


def generated(lang, seeds, max_depth=None):
    key = ('gen', lang, tuple(seeds), max_depth)
    if key not in _CACHE:
        out = []
        for s in seeds:
            try:
                out.append(('generated/%s/seed%d' % (lang, s), pickle.dumps(generate(lang, s, max_depth))))
            except RecursionError as e:
                out.append(('generated/%s/seed%d' % (lang, s), e))
        _CACHE[key] = out
    return [(n, pickle.loads(b)) for n, b in _CACHE[key] if isinstance(b, bytes)]


def translate(lang, program, translator=None, package='src.pkg', options=None):
    t = translator or TRANSLATORS[lang](package, options or {})
    return utils.translate_program(t, program)


def translatable(members, langs=LANGS):
    """{(name, lang): baseline text} for the member/language pairs a fresh translator handles without
    raising (hand-built kotlin-typed fixtures are not translatable to every language)"""
    base = {}
    for name, p in members:
        for lang in langs:
            try:
                base[(name, lang)] = translate(lang, pickle.loads(pickle.dumps(p)))
            except Exception:       # noqa
                pass
    return base
