"""Mutation twins: every property module may define mutants() -> [(name, apply, undo)];
each seeded fault must yield a replay-confirmed counterexample ("assert(false) twin")."""
import time
from vlib import runner


def run(pid, mod, seed):
    muts = getattr(mod, 'mutants', lambda: [])()
    if not muts:
        print('no mutation twins defined for %s' % pid)
        return 0
    bad = 0
    known = runner.load_known()
    for name, apply_, undo in muts:
        t = time.time()
        apply_()
        try:
            found = None
            for job in mod.jobs('quick'):
                r = runner.run_job(job, seed=seed)
                for v in r['violations']:
                    if runner.match_known(pid, v['key'], known):
                        continue        # a recorded finding of the unchanged tree is no evidence for the twin
                    ok, why, _ = runner.confirm(job, v)
                    if ok:
                        found = (job.name, v['key'])
                        break
                if found:
                    break
        finally:
            undo()
        if found:
            print('twin %-40s DETECTED by %s key=%s (%.1fs)' % (name, found[0], found[1], time.time() - t))
        else:
            print('twin %-40s MISSED (%.1fs)' % (name, time.time() - t))
            bad += 1
    return 2 if bad else 0
