"""Job runner: shards the exploration of each job over worker processes,
confirms counterexamples by a plain-value replay against the real code,
matches them with known_findings.json, writes evidence and replay files."""
import fnmatch
import hashlib
import inspect
import json
import multiprocessing as mp
import os
import random
import sys
import time
import traceback

import z3

from vlib.symex import Engine, Divergence, Infeasible

VERIF = os.path.dirname(os.path.dirname(os.path.abspath(__file__)))
REPO = os.environ.get('VERIF_REPO', '/repo')
NPROC = int(os.environ.get('VERIF_NPROC', '16'))


class Job:
    """One harness with concrete parameters (bounds).

    fn(eng, **params) -> [Ob]; `split_depth` decisions are explored by the
    master, the resulting prefixes are distributed; `require_events` must all
    be seen (reachability witnesses); `budget_s` wall-clock limit."""

    def __init__(self, name, fn, params=None, split_depth=3, require_events=(),
                 budget_s=600, crosscheck_every=50, functions=(), bounds='',
                 stubs=(), setup=None, serial=False, outside=''):
        self.name = name
        self.fn = fn
        self.params = params or {}
        self.split_depth = split_depth
        self.require_events = tuple(require_events)
        self.budget_s = budget_s
        self.crosscheck_every = crosscheck_every
        self.functions = tuple(functions)
        self.bounds = bounds
        self.stubs = tuple(stubs)
        self.setup = setup
        self.serial = serial
        self.outside = outside


_JOB = None


def _worker(args):
    prefixes, deadline, crosscheck_every, seed, known = args
    job = _JOB
    try:
        eng = Engine(deadline=deadline)
        res = eng.explore(job.fn, job.params, prefixes=prefixes,
                          crosscheck_every=crosscheck_every, known_patterns=known)
        res['stats'] = eng.stats
        res['events'] = eng.events
        return res
    except BaseException as e:     # harness error: report, never hide
        return dict(exhaustive=False, violations=[], splits=[], samples=[], crosschecks=0,
                    diverged=[], ob_keys={},
                    errors=['worker exception %s: %s\n%s' % (type(e).__name__, e, traceback.format_exc()[-1500:])],
                    stats={}, events={})


def _merge(total, res):
    for k, v in res.get('stats', {}).items():
        if k == 'max_decisions':
            total['stats'][k] = max(total['stats'].get(k, 0), v)
        else:
            total['stats'][k] = total['stats'].get(k, 0) + v
    for k, v in res.get('events', {}).items():
        total['events'][k] = total['events'].get(k, 0) + v
    for k, v in res.get('ob_keys', {}).items():
        total['ob_keys'][k] = total['ob_keys'].get(k, 0) + v
    total['exhaustive'] = total['exhaustive'] and res['exhaustive']
    total['crosschecks'] += res.get('crosschecks', 0)
    total['diverged'].extend(res.get('diverged', []))
    total['errors'].extend(res.get('errors', []))
    for s in res.get('samples', []):
        if len(total['samples']) < 4:
            total['samples'].append(s)
    keys = {v['key'] for v in total['violations']}
    for v in res.get('violations', []):
        if v['key'] not in keys:
            keys.add(v['key'])
            total['violations'].append(v)


def run_job(job, seed=0, nproc=NPROC, known=()):
    """Explore one job; returns merged result dict."""
    global _JOB
    t0 = time.time()
    deadline = t0 + min(job.budget_s, float(os.environ.get('VERIF_BUDGET_S', '1e9')))
    total = dict(stats={}, events={}, exhaustive=True, crosschecks=0, diverged=[],
                 errors=[], samples=[], violations=[], ob_keys={})
    if job.setup:
        job.setup()
    _JOB = job
    try:
        eng = Engine(deadline=deadline)
        if job.serial or nproc <= 1:
            res = eng.explore(job.fn, job.params, crosscheck_every=job.crosscheck_every, known_patterns=known)
            res['stats'] = eng.stats
            res['events'] = eng.events
            _merge(total, res)
        else:
            res = eng.explore(job.fn, job.params, split_depth=job.split_depth,
                              crosscheck_every=job.crosscheck_every, known_patterns=known)
            res['stats'] = eng.stats
            res['events'] = eng.events
            splits = res['splits']
            _merge(total, res)
            if splits:
                rnd = random.Random(seed)
                rnd.shuffle(splits)
                # chunks: aim at >= 8 per process for balance
                nchunks = min(len(splits), nproc * 12)
                chunks = [splits[i::nchunks] for i in range(nchunks)]
                ctx = mp.get_context('fork')
                with ctx.Pool(min(nproc, len(chunks))) as pool:
                    for r in pool.imap_unordered(
                            _worker, [(c, deadline, job.crosscheck_every, seed, known) for c in chunks]):
                        _merge(total, r)
    except BaseException as e:
        total['exhaustive'] = False
        total['errors'].append('master exception %s: %s\n%s' % (type(e).__name__, e, traceback.format_exc()[-1500:]))
    total['wall_s'] = round(time.time() - t0, 3)
    missing = [e for e in job.require_events if not total['events'].get(e)]
    total['missing_events'] = missing
    return total


def confirm(job, viol):
    """Replay a counterexample with plain values against the real code."""
    eng = Engine(concrete=[])
    try:
        obs, notes, _ = eng.run_concrete(job.fn, job.params, viol['assignment'], viol.get('named'))
    except (Divergence, Infeasible) as e:
        return False, 'replay diverged: %s' % e, None
    except Exception as e:
        return False, 'replay raised %s: %s' % (type(e).__name__, e), None
    for k, v, info in obs:
        if (k == viol['key'] or fnmatch.fnmatchcase(k, viol['key'].replace('[', '[[]'))) and not v:
            return True, 'reproduced', info
    return False, 'replay did not violate %s (obligations: %s)' % (
        viol['key'], [(k, v) for k, v, _ in obs][:6]), None


def source_hash(path):
    try:
        with open(path, 'rb') as f:
            return hashlib.sha256(f.read()).hexdigest()[:16]
    except OSError:
        return None


def describe_functions(funcs):
    out = []
    for f in funcs:
        try:
            fn = inspect.unwrap(f)
            if isinstance(fn, (staticmethod, classmethod)):
                fn = fn.__func__
            path = inspect.getsourcefile(fn)
            _, line = inspect.getsourcelines(fn)
            out.append(dict(function='%s.%s' % (fn.__module__, fn.__qualname__),
                            file=os.path.relpath(path, REPO) if path else None,
                            line=line, file_sha256_16=source_hash(path)))
        except Exception as e:  # pragma: no cover
            out.append(dict(function=repr(f), error=str(e)))
    return out


def load_known():
    p = os.path.join(VERIF, 'known_findings.json')
    if not os.path.exists(p):
        return []
    with open(p) as f:
        return json.load(f).get('findings', [])


def match_known(pid, key, known):
    for k in known:
        if k.get('property') == pid and k.get('status') == 'known' and fnmatch.fnmatchcase(key, k['key']):
            return k
    return None


def jsonable(x, depth=0):
    if isinstance(x, (str, int, float, bool)) or x is None:
        return x
    if isinstance(x, dict):
        return {str(k): jsonable(v, depth + 1) for k, v in x.items()}
    if isinstance(x, (list, tuple, set, frozenset)):
        return [jsonable(v, depth + 1) for v in x]
    return str(x)


def run_property(pid, jobs, tier, seed, level='other', technique='', assumptions=(),
                 explanation='', extra_coverage=None, post=None):
    """Run all jobs of a property, print verdict lines, write evidence.
    Returns the process exit code."""
    t0 = time.time()
    known = load_known()
    evdir = os.environ.get('VERIF_EVIDENCE_DIR') or os.path.join(VERIF, 'evidence')
    os.makedirs(evdir, exist_ok=True)
    os.makedirs(os.path.join(VERIF, 'replays'), exist_ok=True)
    per_job = []
    violations, known_hits, inconclusive = [], [], []
    agg = dict(paths=0, dec_fast=0, dec_solver=0, dec_cached=0, solver_calls=0, solver_s=0.0,
               final_queries=0, final_trivial=0, crosschecks=0, infeasible=0)
    samples = []
    functions = []
    seenf = set()
    for job in jobs:
        r = run_job(job, seed=seed, known=tuple(k['key'] for k in known if k.get('property') == pid
                                                 and k.get('status') == 'known'))
        st = r['stats']
        for k in agg:
            if k == 'crosschecks':
                agg[k] += r['crosschecks']
            else:
                agg[k] += st.get(k, 0)
        jrec = dict(job=job.name, params=jsonable(job.params), bounds=job.bounds,
                    outside_the_claim=job.outside,
                    exhaustive=r['exhaustive'], paths=st.get('paths', 0),
                    infeasible_paths=st.get('infeasible', 0),
                    decisions_fast=st.get('dec_fast', 0), decisions_solver=st.get('dec_solver', 0),
                    decisions_cached=st.get('dec_cached', 0),
                    solver_queries=st.get('solver_calls', 0), solver_s=round(st.get('solver_s', 0.0), 3),
                    obligations_solver=st.get('final_queries', 0),
                    obligations_concrete=st.get('final_trivial', 0),
                    obligations_by_kind=r['ob_keys'],
                    max_decisions_on_a_path=st.get('max_decisions', 0),
                    concolic_crosschecks=r['crosschecks'], events=r['events'],
                    wall_s=r['wall_s'], stubs=list(job.stubs))
        for f in describe_functions(job.functions):
            if f.get('function') not in seenf:
                seenf.add(f.get('function'))
                functions.append(f)
        for s in r['samples']:
            if len(samples) < 8:
                samples.append(dict(job=job.name, case=jsonable(s)))
        problems = []
        unknown_viol = [v for v in r['violations'] if not match_known(pid, v['key'], known)]
        if not r['exhaustive'] and not unknown_viol:
            problems.append('not exhaustive within budget %ss' % job.budget_s)
        if r['errors']:
            problems.append('errors: ' + ' || '.join(r['errors'][:3]))
        if r['diverged']:
            problems.append('concolic divergence: ' + ' || '.join(r['diverged'][:3]))
        if r['missing_events'] and not unknown_viol:
            problems.append('reachability witnesses never reached: %s' % r['missing_events'])
        jv = []
        for v in r['violations']:
            ok, why, info = confirm(job, v)
            if not ok:
                problems.append('counterexample %s not reproduced by plain replay: %s' % (v['key'], why))
                continue
            v = dict(v, job=job.name, info=info if info is not None else v.get('info'))
            k = match_known(pid, v['key'], known)
            if k:
                known_hits.append((v, k))
            else:
                violations.append(v)
            jv.append(v['key'])
        jrec['violating_keys'] = jv
        jrec['problems'] = problems
        if problems:
            inconclusive.append((job.name, problems))
        per_job.append(jrec)
    if post:
        post(per_job)
    wall = round(time.time() - t0, 3)
    # ---------------------------------------------------------------- output
    printed = set()
    for v, k in known_hits:
        line = 'KNOWN-FINDING: property=%s %s [pattern %s; e.g. %s]' % (pid, k.get('what', ''), k['key'], v['key'])
        if k['key'] in printed:
            continue
        printed.add(k['key'])
        if line not in printed:
            printed.add(line)
            print(line)
    code = 0
    for v in violations:
        path = os.path.join(VERIF, 'replays', '%s-%s.json' % (
            pid, hashlib.sha1(v['key'].encode()).hexdigest()[:10]))
        with open(path, 'w') as f:
            json.dump(dict(property=pid, job=v['job'], key=v['key'], info=jsonable(v['info']),
                           assignment=v['assignment'], named=v.get('named', {}), tier=tier), f, indent=1)
        print('VIOLATION property=%s replay=%s' % (pid, path))
        print('  key: %s' % v['key'])
        print('  case: %s' % json.dumps(jsonable(v['info']))[:600])
        code = 1
    if code == 0 and inconclusive:
        for name, probs in inconclusive:
            print('INCONCLUSIVE property=%s job=%s: %s' % (pid, name, ' ;; '.join(probs)[:1500]))
        code = 2
    total_ob = agg['final_queries'] + agg['final_trivial']
    nontrivial = sum(1 for j in per_job for _ in [0] if j['paths']) and sum(
        j['paths'] for j in per_job)
    cov = dict(
        explanation=explanation or (
            'Bounded symbolic execution of the real functions (imported from /repo at run '
            'time) with z3 deciding branch feasibility and the final obligations on every '
            'path; exhaustive=true means the path work-list emptied for every job.'),
        technique=technique,
        functions_encoded=functions,
        jobs=per_job,
        evaluations=agg['paths'],
        distinct_nontrivial=nontrivial,
        rule=('one evaluation = one feasible execution path of a harness (a class of inputs '
              'sharing all decisions); paths are distinct by construction (DFS over decision '
              'vectors); every path carries at least one obligation, so all are non-trivial'),
        obligations=total_ob,
        discharged=total_ob - len(violations) - len(known_hits),
        obligations_decided_by_solver=agg['final_queries'],
        obligations_closed_concretely=agg['final_trivial'],
        decisions_fast=agg['dec_fast'], decisions_solver=agg['dec_solver'],
        decisions_cached=agg['dec_cached'],
        solver_queries=agg['solver_calls'], solver_s=round(agg['solver_s'], 3),
        concolic_crosschecks=agg['crosschecks'],
        exhaustive=all(j['exhaustive'] for j in per_job) and not inconclusive,
        samples=samples or [dict(note='no sample recorded')],
        known_findings_seen=[v['key'] for v, _ in known_hits],
        checker_cmd='./vcheck %s --tier %s' % (pid, tier),
        trusted_base=['z3 %s (python wheel)' % z3.get_version_string(), 'vlib/symex.py proxies',
                      'reference oracles in the harness module'],
        solver='z3 ' + z3.get_version_string(),
        verdict={0: 'holds within bounds', 1: 'violation', 2: 'inconclusive'}[code],
    )
    if extra_coverage:
        cov.update(extra_coverage)
    ev = dict(property_id=pid, tier=tier, seed=seed, level=level, coverage=cov,
              assumptions=list(assumptions), wall_s=wall,
              violations=len(violations))
    with open(os.path.join(evdir, '%s.json' % pid), 'w') as f:
        json.dump(jsonable(ev), f, indent=1)
    print('%s tier=%s jobs=%d paths=%d solver_queries=%d solver_s=%.1f obligations=%d wall=%.1fs -> %s'
          % (pid, tier, len(jobs), agg['paths'], agg['solver_calls'], agg['solver_s'], total_ob,
             wall, cov['verdict']))
    return code
