"""C13 -- saved programs replay faithfully.

For family members at every stage at which the driver saves them (generated, after type
erasure, after type overwriting) the real dump_program / load_program round trip must
be invisible: identical translations in four languages, stable second dump, and the
mutations applied with the *same* random choices give the same result on the reloaded
copy.  The random choices of the mutation are symbolic (one RNG drives the original,
its recorded draws are replayed on the reloaded copy, candidate-list lengths compared).
"""
import os
import pickle
import shutil
import tempfile

from src import utils
from src.ir import ast

from vlib.symex import Ob
from vlib.runner import Job
from vlib.symrandom import installed
from vlib import families as F
from vlib import pipeline as P
from vlib.props.C11 import FixedRandom, members, fresh, snapshot, _BYTES

_TMP = {}


# the draws of TypeOverwriting.transform that select WHAT is mutated (method, graph node, type parameter) are
# tuples / named tuples; draws inside find_irrelevant_type range over types and take the first element
MUTATION_CHOICES = lambda seq: isinstance(seq[0], tuple)      # noqa: E731


def tmpdir():
    d = _TMP.get(os.getpid())
    if d is None:
        d = _TMP[os.getpid()] = tempfile.mkdtemp(prefix='vcheckC13')
    return d


class ReplayRandom:
    """replays the recorded draws of a SymRandom; a differing candidate-list length is a divergence"""

    def __init__(self, log):
        self.log = list(log)
        self.i = 0
        self.divergence = None

    def _next(self, kind, n=None):
        if self.i >= len(self.log):
            self.divergence = self.divergence or 'more draws than on the original (%s)' % kind
            return None
        e = self.log[self.i]
        self.i += 1
        if e[0] != kind or (n is not None and e[1] != n):
            self.divergence = self.divergence or 'draw %d: %s over %s candidates, original %s' % (self.i, kind, n, e)
        return e

    def choice(self, seq):
        seq = list(seq)
        e = self._next('choice', len(seq))
        i = e[2] if e and e[0] == 'choice' and e[2] < len(seq) else 0
        return seq[i]

    def bool(self, prob=0.5):
        if prob <= 0:
            return False
        if prob >= 1:
            return True
        e = self._next('bool')
        return bool(e[1]) if e and e[0] == 'bool' else False

    def integer(self, a=0, b=10):
        e = self._next('integer')
        return e[3] if e and e[0] == 'integer' and a <= e[3] <= b else a

    def __enter__(self):
        self.saved = {m: utils.random.__dict__.get(m) for m in ('choice', 'bool', 'integer')}
        utils.random.choice, utils.random.bool, utils.random.integer = self.choice, self.bool, self.integer
        return self

    def __exit__(self, *a):
        for m, v in self.saved.items():
            if v is None:
                try:
                    delattr(utils.random, m)
                except AttributeError:
                    pass
            else:
                setattr(utils.random, m, v)
        return False


def reverse_map(p):
    """(namespace, table, name) -> namespace answered by the reverse lookup, for every non-artificial entry"""
    out = []
    for ns, ent in p.context._context.items():
        for kind, tab in ent.items():
            for name, v in tab.items():
                if v is not None:
                    out.append((str(ns), kind, name, str(p.context.get_namespace(v))))
    return sorted(out)


_STAGED = {}


def stage_program(name, lang, stage):
    """member at a pipeline stage; the staged program is built once per process and kept pickled
    (every path works on its own unpickled copy)"""
    if name.startswith('template/'):
        # built from the IR constructors and mutated directly: the "original" never went through pickle
        from vlib import templates
        p = templates.build(name)
        with FixedRandom():
            if stage >= 1:
                p, _ = P.erase(p, lang)
            if stage >= 2:
                p, _ = P.overwrite(p, lang)
        return p
    k = (name, lang, stage)
    if k not in _STAGED:
        try:
            p = fresh(name)
            with FixedRandom():
                if stage >= 1:
                    p, _ = P.erase(p, lang)
                if stage >= 2:
                    p, _ = P.overwrite(p, lang)
            _STAGED[k] = pickle.dumps(p)
        except Exception as e:      # noqa
            _STAGED[k] = e
    if isinstance(_STAGED[k], Exception):
        raise _STAGED[k]
    return pickle.loads(_STAGED[k])


def c13_members(tier, part):
    names = members(tier)
    if tier == 'quick' and part == 'mutation':
        # mutation runs on generated programs cost ~1 s each: two generated members in the quick tier
        names = [n for n in names if not n.startswith('generated/') or n in ('generated/java/seed1', 'generated/kotlin/seed1')]
    return names


def prebuild(tier, lang, part):
    """staged programs are built once in the master (before the workers are forked)"""
    for n in c13_members(tier, part):
        for st in (0, 1, 2):
            try:
                stage_program(n, lang, st)
            except Exception:       # noqa
                pass


def h_roundtrip(eng, tier, lang, sym_draws, part):
    names = c13_members(tier, part)
    pname = names[int(eng.fresh_int(0, len(names) - 1, 'member'))]
    stage = int(eng.fresh_int(0, 2, 'stage'))
    try:
        p = stage_program(pname, lang, stage)
    except Exception as e:      # noqa -- the stage itself failing is C18's subject, not a member here
        eng.event('stage-not-applicable')
        return [Ob('skip', True)]
    path = os.path.join(tmpdir(), 'prog.bin')
    utils.dump_program(path, p)
    q = utils.load_program(path)
    case = dict(member=pname, language=lang, stage=['generated', 'erased', 'erased+overwritten'][stage])
    obs = []
    # identical translations in every language
    for tl in (F.LANGS if part == 'roundtrip' else []):
        try:
            with FixedRandom():
                a = F.translate(tl, P.clone(p))
        except Exception:       # noqa -- not translatable to this language on the original either
            continue
        try:
            with FixedRandom():
                b = F.translate(tl, P.clone(q))
        except Exception as e:  # noqa
            b = 'EXCEPTION %r' % e
        obs.append(Ob('translation-identical|%s' % tl, a == b, dict(case, target=tl)))
    obs.append(Ob('structure-identical', snapshot(p) == snapshot(q) and not P.irdiff(p, q),
                  lambda: dict(case, diff=[str(d)[:200] for d in P.irdiff(p, q)[:3]])))
    obs.append(Ob('reverse-lookup-identical', reverse_map(p) == reverse_map(q), case))
    # loading the same file again after the first loaded copy was changed in place gives the saved program
    from vlib.props.C11 import _first_erasable
    d_ = _first_erasable(q)
    if d_ is not None:
        d_.omit_type()
        q_again = utils.load_program(path)
        obs.append(Ob('second-load-of-the-same-file', not P.irdiff(p, q_again) and snapshot(p) == snapshot(q_again), case))
        q = q_again
    # second round trip is stable
    path2 = os.path.join(tmpdir(), 'prog2.bin')
    utils.dump_program(path2, q)
    q2 = utils.load_program(path2)
    obs.append(Ob('second-dump-stable', snapshot(q2) == snapshot(q) and not P.irdiff(q, q2), case))
    if part == 'roundtrip':
        return _erasure_part(eng, obs, p, q, lang, stage, case)
    # mutations with the same random choices
    p1, q1 = P.clone(p), P.clone(q)
    sym = installed(eng, max_draws=2000, max_sym_draws=sym_draws, sym_filter=MUTATION_CHOICES)
    try:
        r1, t1 = P.overwrite_split(p1, lang, FixedRandom(), sym)
        out1 = (t1.is_transformed, t1.error_injected)
    except Exception as e:  # noqa
        r1, out1 = None, ('EXC', type(e).__name__)
    log = list(sym.rnd.log)
    rr = ReplayRandom(log)
    try:
        r2, t2 = P.overwrite_split(q1, lang, FixedRandom(), rr)
        out2 = (t2.is_transformed, t2.error_injected)
    except Exception as e:  # noqa
        r2, out2 = None, ('EXC', type(e).__name__)
    same = out1 == out2 and rr.divergence is None
    if same and r1 is not None:
        same = not P.irdiff(r1, r2)
    obs.append(Ob('overwriting-equivalent|stage=%d' % stage, same,
                  lambda: dict(case, original=str(out1), reloaded=str(out2), divergence=rr.divergence, draws=len(log))))
    eng.event('roundtrip')
    if out1[0] is True:
        eng.event('overwritten')
    eng.notes['sample'] = dict(case, overwrite_outcome=str(out1)[:120], draws=len(log))
    eng.notes['observe'] = str(out1)
    return obs


def _erasure_part(eng, obs, p, q, lang, stage, case):
    e1, e2 = P.clone(p), P.clone(q)
    with FixedRandom():
        try:
            ra, ta = P.erase(e1, lang)
            rb, tb = P.erase(e2, lang)
            obs.append(Ob('erasure-equivalent|stage=%d' % stage,
                          ta.is_transformed == tb.is_transformed and not P.irdiff(ra, rb), case))
        except Exception:       # noqa
            pass
    eng.event('roundtrip')
    eng.notes['sample'] = case
    return obs


def post(per_job):
    for d in _TMP.values():
        shutil.rmtree(d, ignore_errors=True)


FUNCS = [utils.dump_program, utils.load_program, P.TypeOverwriting.visit_func_decl, P.TypeErasure.visit_func_decl]
OUT = ('programs outside the families; pickle protocol / interpreter version changes; only the first N random draws of the '
       'mutation are symbolic (later ones take the first element)')


def jobs(tier):
    out = []
    langs = ['kotlin'] if tier == 'quick' else ['java', 'kotlin']   # the language only parameterises how the mutations run
    nseeds = 2 if tier == 'quick' else 5
    for lang in langs:
        out.append(Job('roundtrip-%s' % lang, h_roundtrip, dict(tier=tier, lang=lang, sym_draws=0, part='roundtrip'),
                       split_depth=2, functions=FUNCS, require_events=['roundtrip'], budget_s=2400,
                       crosscheck_every=50, setup=lambda t=tier, l=lang: prebuild(t, l, 'roundtrip'),
                       bounds='every family member (41 fixtures + %d generated programs per language) x stage in {generated, '
                              'erased, erased+overwritten}: translations in 4 languages, structure, second dump, type erasure on '
                              'original vs reloaded copy (mutations run as for language %s)' % (nseeds, lang), outside=OUT))
        nd = 1 if tier == 'quick' else 2
        out.append(Job('mutation-equivalence-%s' % lang, h_roundtrip, dict(tier=tier, lang=lang, sym_draws=nd, part='mutation'),
                       split_depth=3, functions=FUNCS, require_events=['roundtrip', 'overwritten'], budget_s=2400,
                       crosscheck_every=200, setup=lambda t=tier, l=lang: prebuild(t, l, 'mutation'),
                       bounds='every family member (quick: fixtures + 2 generated programs) x stage x every outcome of the first %d random draws of TypeOverwriting.transform '
                              '(method, node, ...) recorded on the original and replayed on the reloaded copy' % nd, outside=OUT))
    return out


META = dict(
    level='other',
    technique='bounded symbolic execution: dump/load round trips of program families at each pipeline stage, mutation '
              'equivalence under one shared symbolic RNG (recorded draws replayed on the reloaded copy)',
    assumptions=['structural snapshot / IR diff functions of vlib (attribute-level)', 'family members are concrete programs'],
)


def mutants():
    out = []
    orig = utils.dump_program

    def bad(path, program):
        # drops the reverse lookup table before pickling ("it can be rebuilt")
        import copy
        p2 = copy.copy(program)
        ctx = copy.copy(program.context)
        ctx._namespaces = {}
        p2.context = ctx
        with open(path, 'wb') as out_:
            pickle.dump(p2, out_)
    out.append(('dump drops the declaration->namespace table', lambda: setattr(utils, 'dump_program', bad),
                lambda: setattr(utils, 'dump_program', orig)))
    return out
