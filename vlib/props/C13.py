"""C13 -- saved programs replay faithfully.

For family members at every stage at which the driver saves them (generated, after type
erasure, after type overwriting) the real dump_program / load_program round trip must
be invisible: identical translations in four languages, stable second dump, and the
mutations applied with the *same* random choices give the same result on the reloaded
copy.  The random choices of the mutation are symbolic (one RNG drives the original,
its recorded draws are replayed on the reloaded copy, candidate-list lengths compared).
"""
import os
import pickle
import shutil
import tempfile

from src import utils
from src.ir import ast

from vlib.symex import Ob
from vlib.runner import Job
from vlib.symrandom import installed
from vlib import families as F
from vlib import pipeline as P
from vlib.props.C11 import FixedRandom, members, fresh, snapshot, _BYTES

_TMP = {}


# the draws of TypeOverwriting.transform that select WHAT is mutated (method, graph node, type parameter) are
# tuples / named tuples; draws inside find_irrelevant_type range over types and take the first element
MUTATION_CHOICES = lambda seq: isinstance(seq[0], tuple)      # noqa: E731


def tmpdir():
    d = _TMP.get(os.getpid())
    if d is None:
        d = _TMP[os.getpid()] = tempfile.mkdtemp(prefix='vcheckC13')
    return d


class ReplayRandom:
    """replays the recorded draws of a SymRandom; a differing candidate-list length is a divergence"""

    def __init__(self, log):
        self.log = list(log)
        self.i = 0
        self.divergence = None

    def _next(self, kind, n=None):
        if self.i >= len(self.log):
            self.divergence = self.divergence or 'more draws than on the original (%s)' % kind
            return None
        e = self.log[self.i]
        self.i += 1
        if e[0] != kind or (n is not None and e[1] != n):
            self.divergence = self.divergence or 'draw %d: %s over %s candidates, original %s' % (self.i, kind, n, e)
        return e

    def choice(self, seq):
        seq = list(seq)
        e = self._next('choice', len(seq))
        i = e[2] if e and e[0] == 'choice' and e[2] < len(seq) else 0
        return seq[i]

    def bool(self, prob=0.5):
        if prob <= 0:
            return False
        if prob >= 1:
            return True
        e = self._next('bool')
        return bool(e[1]) if e and e[0] == 'bool' else False

    def integer(self, a=0, b=10):
        e = self._next('integer')
        return e[3] if e and e[0] == 'integer' and a <= e[3] <= b else a

    def __enter__(self):
        self.saved = {m: utils.random.__dict__.get(m) for m in ('choice', 'bool', 'integer')}
        utils.random.choice, utils.random.bool, utils.random.integer = self.choice, self.bool, self.integer
        return self

    def __exit__(self, *a):
        for m, v in self.saved.items():
            if v is None:
                try:
                    delattr(utils.random, m)
                except AttributeError:
                    pass
            else:
                setattr(utils.random, m, v)
        return False


def reverse_map(p):
    """(namespace, table, name) -> namespace answered by the reverse lookup, for every non-artificial entry"""
    out = []
    for ns, ent in p.context._context.items():
        for kind, tab in ent.items():
            for name, v in tab.items():
                if v is not None:
                    out.append((str(ns), kind, name, str(p.context.get_namespace(v))))
    return sorted(out)


_STAGED = {}


def stage_program(name, lang, stage):
    """member at a pipeline stage; the staged program is built once per process and kept pickled
    (every path works on its own unpickled copy)"""
    if name.startswith('template/'):
        # built from the IR constructors and mutated directly: the "original" never went through pickle
        from vlib import templates
        p = templates.build(name)
        with FixedRandom():
            if stage >= 1:
                p, _ = P.erase(p, lang)
            if stage >= 2:
                p, _ = P.overwrite(p, lang)
        return p
    k = (name, lang, stage)
    if k not in _STAGED:
        try:
            p = fresh(name)
            with FixedRandom():
                if stage >= 1:
                    p, _ = P.erase(p, lang)
                if stage >= 2:
                    p, _ = P.overwrite(p, lang)
            _STAGED[k] = pickle.dumps(p)
        except Exception as e:      # noqa
            _STAGED[k] = e
    if isinstance(_STAGED[k], Exception):
        raise _STAGED[k]
    return pickle.loads(_STAGED[k])


def c13_members(tier, part):
    names = members(tier)
    if tier == 'quick' and part == 'mutation':
        # mutation runs on generated programs cost ~1 s each: two generated members in the quick tier
        names = [n for n in names if not n.startswith('generated/') or n in ('generated/java/seed1', 'generated/kotlin/seed1')]
    return names


def prebuild(tier, lang, part):
    """staged programs are built once in the master (before the workers are forked)"""
    for n in c13_members(tier, part):
        for st in (0, 1, 2):
            try:
                stage_program(n, lang, st)
            except Exception:       # noqa
                pass


def h_roundtrip(eng, tier, lang, sym_draws, part):
    names = c13_members(tier, part)
    pname = names[int(eng.fresh_int(0, len(names) - 1, 'member'))]
    stage = int(eng.fresh_int(0, 2, 'stage'))
    try:
        p = stage_program(pname, lang, stage)
    except Exception as e:      # noqa -- the stage itself failing is C18's subject, not a member here
        eng.event('stage-not-applicable')
        return [Ob('skip', True)]
    path = os.path.join(tmpdir(), 'prog.bin')
    utils.dump_program(path, p)
    q = utils.load_program(path)
    case = dict(member=pname, language=lang, stage=['generated', 'erased', 'erased+overwritten'][stage])
    obs = []
    # identical translations in every language
    for tl in (F.LANGS if part == 'roundtrip' else []):
        try:
            with FixedRandom():
                a = F.translate(tl, P.clone(p))
        except Exception:       # noqa -- not translatable to this language on the original either
            continue
        try:
            with FixedRandom():
                b = F.translate(tl, P.clone(q))
        except Exception as e:  # noqa
            b = 'EXCEPTION %r' % e
        obs.append(Ob('translation-identical|%s' % tl, a == b, dict(case, target=tl)))
    obs.append(Ob('structure-identical', snapshot(p) == snapshot(q) and not P.irdiff(p, q),
                  lambda: dict(case, diff=[str(d)[:200] for d in P.irdiff(p, q)[:3]])))
    obs.append(Ob('reverse-lookup-identical', reverse_map(p) == reverse_map(q), case))
    # loading the same file again after the first loaded copy was changed in place gives the saved program
    from vlib.props.C11 import _first_erasable
    d_ = _first_erasable(q)
    if d_ is not None:
        d_.omit_type()
        q_again = utils.load_program(path)
        obs.append(Ob('second-load-of-the-same-file', not P.irdiff(p, q_again) and snapshot(p) == snapshot(q_again), case))
        q = q_again
    # second round trip is stable
    path2 = os.path.join(tmpdir(), 'prog2.bin')
    utils.dump_program(path2, q)
    q2 = utils.load_program(path2)
    obs.append(Ob('second-dump-stable', snapshot(q2) == snapshot(q) and not P.irdiff(q, q2), case))
    if part == 'roundtrip':
        return _erasure_part(eng, obs, p, q, lang, stage, case)
    # mutations with the same random choices
    p1, q1 = P.clone(p), P.clone(q)
    sym = installed(eng, max_draws=2000, max_sym_draws=sym_draws, sym_filter=MUTATION_CHOICES)
    try:
        r1, t1 = P.overwrite_split(p1, lang, FixedRandom(), sym)
        out1 = (t1.is_transformed, t1.error_injected)
    except Exception as e:  # noqa
        r1, out1 = None, ('EXC', type(e).__name__)
    log = list(sym.rnd.log)
    rr = ReplayRandom(log)
    try:
        r2, t2 = P.overwrite_split(q1, lang, FixedRandom(), rr)
        out2 = (t2.is_transformed, t2.error_injected)
    except Exception as e:  # noqa
        r2, out2 = None, ('EXC', type(e).__name__)
    same = out1 == out2 and rr.divergence is None
    if same and r1 is not None:
        same = not P.irdiff(r1, r2)
    obs.append(Ob('overwriting-equivalent|stage=%d' % stage, same,
                  lambda: dict(case, original=str(out1), reloaded=str(out2), divergence=rr.divergence, draws=len(log))))
    eng.event('roundtrip')
    if out1[0] is True:
        eng.event('overwritten')
    eng.notes['sample'] = dict(case, overwrite_outcome=str(out1)[:120], draws=len(log))
    eng.notes['observe'] = str(out1)
    return obs


def _erasure_part(eng, obs, p, q, lang, stage, case):
    e1, e2 = P.clone(p), P.clone(q)
    with FixedRandom():
        try:
            ra, ta = P.erase(e1, lang)
            rb, tb = P.erase(e2, lang)
            obs.append(Ob('erasure-equivalent|stage=%d' % stage,
                          ta.is_transformed == tb.is_transformed and not P.irdiff(ra, rb), case))
        except Exception:       # noqa
            pass
    eng.event('roundtrip')
    eng.notes['sample'] = case
    return obs


def h_driver_storage(eng, lang):
    """the driver's own storage functions: hephaestus.save_program at successive stages of ONE program object (the
    transformations change it in place) and ProgramProcessor.get_program for --replay, called repeatedly in one
    process: every saved .bin is the program whose text was saved next to it, and every replay starts from the
    stored program"""
    import copy
    from vlib.props.C15 import H
    from vlib import templates
    from src.modules.processor import ProgramProcessor
    names = sorted(n for n in templates._BUILDERS or dict(templates.all_templates()))
    names = [n for n in names if n.split('/')[1].split('-')[0] in ('diamond', 'reassign', 'generic', 'block', 'nested')]
    pname = names[int(eng.fresh_int(0, len(names) - 1, 'member'))]
    p = templates.build(pname)
    case = dict(member=pname, language=lang)
    root = os.path.join(tmpdir(), 'drv%d' % int(eng.fresh_int(0, 0, 'dir')))
    shutil.rmtree(root, ignore_errors=True)
    obs, saved = [], []
    ext = {'kotlin': 'kt', 'java': 'java'}[lang]

    def save(stage):
        with FixedRandom():
            text = F.translate(lang, P.clone(p))
        f = os.path.join(root, stage, 'Main.' + ext)
        H.save_program(p, text, f)
        saved.append((stage, f, text))
    save('generated')
    same_object = True
    ops = []
    for i in range(2):
        op = int(eng.fresh_int(0, 2, 'op%d' % i))      # 0: save again elsewhere, 1: erase then save, 2: overwrite then save
        before = p
        with FixedRandom():
            if op == 1:
                p, _ = P.erase(p, lang)
            elif op == 2:
                p, _ = P.overwrite(p, lang)
        same_object = same_object and (p is before)
        ops.append(['save', 'erase+save', 'overwrite+save'][op])
        save('stage%d' % (i + 1))
    case['history'] = ops
    for stage, f, text in saved:
        ok_text = open(f).read() == text
        try:
            q = utils.load_program(f + '.bin')
            with FixedRandom():
                back = F.translate(lang, q)
        except Exception as e:      # noqa
            back = 'EXCEPTION %r' % e
        obs.append(Ob('driver|saved-binary-is-the-program-saved-next-to-it', ok_text and back == text,
                      dict(case, stage=stage, file=os.path.basename(os.path.dirname(f)))))
    # --replay of the first saved program, twice in one process, the first replayed copy changed in place in between
    args = copy.copy(H.cli_args)
    args.replay = saved[0][1] + '.bin'
    args.debug = False
    same_proc = bool(eng.fresh_bool('same_processor_object'))
    pr1 = ProgramProcessor(1, args)
    r1, _ = pr1.get_program()
    with FixedRandom():
        first = F.translate(lang, P.clone(r1))
        if bool(eng.fresh_bool('erase_between')):
            P.erase(r1, lang)
        else:
            P.overwrite(r1, lang)
    pr2 = pr1 if same_proc else ProgramProcessor(2, args)
    r2, _ = pr2.get_program()
    with FixedRandom():
        second = F.translate(lang, P.clone(r2))
    obs.append(Ob('driver|replay-starts-from-the-stored-program', first == saved[0][2] and second == saved[0][2],
                  dict(case, same_processor=same_proc)))
    shutil.rmtree(root, ignore_errors=True)
    eng.event('driver-storage')
    if any(o != 'save' for o in ops):
        eng.event('changed-in-place-between-saves')
    eng.notes['sample'] = case
    return obs


_CHILD = r'''
import json, sys, random
random.seed(0)
sys.path[:0] = [sys.argv[2], sys.argv[3]]
from src import utils
from src.ir import types as tp, ast
from vlib import families as F, pipeline as P
from vlib.props.C11 import FixedRandom
out = {}
for name, path in json.load(open(sys.argv[1])).items():
    q = utils.load_program(path)
    with FixedRandom():
        text = F.translate('kotlin', P.clone(q))
    problems = []
    seen = set()
    def walk_type(t, depth=0):
        if t is None or depth > 6:
            return
        if isinstance(t, tp.Builtin) and type(t).__name__ not in seen:
            seen.add(type(t).__name__)
            try:
                fresh = type(t)()
            except TypeError:
                return
            if not (t == fresh and hash(t) == hash(fresh) and t in {fresh} and t.is_subtype(fresh) and fresh.is_subtype(t)):
                problems.append('loaded %s is not interchangeable with a fresh instance' % type(t).__name__)
            for s in fresh.get_supertypes():
                if not t.is_subtype(s):
                    problems.append('loaded %s is not a subtype of %s' % (type(t).__name__, s))
        for a in getattr(t, 'type_args', []) or []:
            walk_type(a, depth + 1)
        walk_type(getattr(t, 'bound', None), depth + 1)
    def walk(n):
        for attr in ('var_type', 'ret_type', 'inferred_type', 'param_type', 'field_type', 'class_type', 't', 'array_type'):
            v = getattr(n, attr, None)
            if isinstance(v, tp.Type):
                walk_type(v)
        for c in (n.children() if hasattr(n, 'children') else []):
            walk(c)
    for d in P.top_decls(q):
        walk(d)
    out[name] = dict(text=text, problems=problems)
print('RESULT ' + json.dumps(out))
'''


def h_cross_process(eng, nmembers):
    """a stored program is replayed by ANOTHER interpreter process: the dump written here (PYTHONHASHSEED=0) is loaded
    in a child process started with a different hash salt; its translation must be the text computed here and the
    built-in types inside it must be interchangeable with fresh instances (no process-dependent state in the dump)"""
    import json
    import subprocess
    import sys
    names = [n for n in c13_members('quick', 'roundtrip') if n.startswith('template/') or n.startswith('generated/kotlin/')]
    names = names[:nmembers]
    root = os.path.join(tmpdir(), 'xproc')
    os.makedirs(root, exist_ok=True)
    index, texts = {}, {}
    for i, n in enumerate(names):
        try:
            p = stage_program(n, 'kotlin', 0)
            with FixedRandom():
                texts[n] = F.translate('kotlin', P.clone(p))
        except Exception:       # noqa
            continue
        index[n] = os.path.join(root, 'm%d.bin' % i)
        utils.dump_program(index[n], p)
    json.dump(index, open(os.path.join(root, 'index.json'), 'w'))
    child = os.path.join(root, 'child.py')
    open(child, 'w').write(_CHILD)
    salt = str(1 + int(eng.fresh_int(0, 2, 'hash_salt')) * 7919)
    env = dict(os.environ, PYTHONHASHSEED=salt)
    import vlib
    here = os.path.dirname(os.path.dirname(os.path.abspath(vlib.__file__)))
    repo = os.environ.get('VERIF_REPO', '/repo')
    r = subprocess.run([sys.executable, child, os.path.join(root, 'index.json'), here, repo], env=env, capture_output=True,
                       text=True, timeout=600)
    line = [l for l in r.stdout.splitlines() if l.startswith('RESULT ')]
    if not line:
        eng.event('child-failed')
        return [Ob('cross-process|child-ran', False, dict(stderr=r.stderr[-400:], salt=salt))]
    res = json.loads(line[0][7:])
    obs = []
    for n in index:
        got = res.get(n, {})
        obs.append(Ob('cross-process|translation-identical', got.get('text') == texts[n], dict(member=n, hash_salt=salt)))
        obs.append(Ob('cross-process|builtins-interchangeable-with-fresh-instances', not got.get('problems'),
                      dict(member=n, hash_salt=salt, problems=got.get('problems', [])[:3])))
    eng.event('cross-process')
    eng.notes['sample'] = dict(members=len(index), hash_salt=salt)
    return obs


def post(per_job):
    for d in _TMP.values():
        shutil.rmtree(d, ignore_errors=True)


FUNCS = [utils.dump_program, utils.load_program, P.TypeOverwriting.visit_func_decl, P.TypeErasure.visit_func_decl]
OUT = ('programs outside the families; pickle protocol / interpreter version changes; only the first N random draws of the '
       'mutation are symbolic (later ones take the first element)')


def jobs(tier):
    out = []
    langs = ['kotlin'] if tier == 'quick' else ['java', 'kotlin']   # the language only parameterises how the mutations run
    nseeds = 2 if tier == 'quick' else 5
    for lang in langs:
        out.append(Job('roundtrip-%s' % lang, h_roundtrip, dict(tier=tier, lang=lang, sym_draws=0, part='roundtrip'),
                       split_depth=2, functions=FUNCS, require_events=['roundtrip'], budget_s=2400,
                       crosscheck_every=50, setup=lambda t=tier, l=lang: prebuild(t, l, 'roundtrip'),
                       bounds='every family member (41 fixtures + %d generated programs per language) x stage in {generated, '
                              'erased, erased+overwritten}: translations in 4 languages, structure, second dump, type erasure on '
                              'original vs reloaded copy (mutations run as for language %s)' % (nseeds, lang), outside=OUT))
        nd = 1 if tier == 'quick' else 2
        out.append(Job('mutation-equivalence-%s' % lang, h_roundtrip, dict(tier=tier, lang=lang, sym_draws=nd, part='mutation'),
                       split_depth=3, functions=FUNCS, require_events=['roundtrip', 'overwritten'], budget_s=2400,
                       crosscheck_every=200, setup=lambda t=tier, l=lang: prebuild(t, l, 'mutation'),
                       bounds='every family member (quick: fixtures + 2 generated programs) x stage x every outcome of the first %d random draws of TypeOverwriting.transform '
                              '(method, node, ...) recorded on the original and replayed on the reloaded copy' % nd, outside=OUT))
    out.append(Job('driver-storage-kotlin', h_driver_storage, dict(lang='kotlin'), split_depth=3,
                   functions=[utils.dump_program, utils.load_program], require_events=['driver-storage', 'changed-in-place-between-saves'],
                   budget_s=1200, crosscheck_every=50,
                   bounds='template programs; hephaestus.save_program after each of 2 operations in {save, erase+save, overwrite+save} '
                          'on one program object; ProgramProcessor.get_program twice in one process (same / new processor object) '
                          'with the first replayed copy changed in place', outside=OUT))
    out.append(Job('cross-process-load', h_cross_process, dict(nmembers=12 if tier == 'quick' else 60), serial=True,
                   functions=[utils.dump_program, utils.load_program], require_events=['cross-process'], budget_s=1200,
                   crosscheck_every=0,
                   bounds='%d family members dumped here (hash salt 0) and loaded in a child interpreter with 3 other hash salts: '
                          'translation and built-in type identity' % (12 if tier == 'quick' else 60), outside=OUT))
    return out


META = dict(
    level='other',
    technique='bounded symbolic execution: dump/load round trips of program families at each pipeline stage, mutation '
              'equivalence under one shared symbolic RNG (recorded draws replayed on the reloaded copy)',
    assumptions=['structural snapshot / IR diff functions of vlib (attribute-level)', 'family members are concrete programs'],
)


def mutants():
    out = []
    orig = utils.dump_program

    def bad(path, program):
        # drops the reverse lookup table before pickling ("it can be rebuilt")
        import copy
        p2 = copy.copy(program)
        ctx = copy.copy(program.context)
        ctx._namespaces = {}
        p2.context = ctx
        with open(path, 'wb') as out_:
            pickle.dump(p2, out_)
    out.append(('dump drops the declaration->namespace table', lambda: setattr(utils, 'dump_program', bad),
                lambda: setattr(utils, 'dump_program', orig)))
    return out
