"""C17 -- generation switches are honoured (unit level).

The four switches (use-site variance, use-site contravariance, bounded type
parameters, parameterized functions) are symbolic values written into the real
cfg singleton; the RNG is symbolic.  Every helper that emits a type or a type
parameter into a program is run and its result scanned for projections / bounds
/ variance.  A static side-condition enumerates every construction site of
WildCardType in /repo/src and fails as inconclusive when a site is not covered.
"""
import ast as pyast
import os

import z3

from src.ir import types as tp, type_utils as tu, ast
from src.ir import kotlin_types as kt, java_types as jt, groovy_types as gt, scala_types as st
from src.ir.context import Context
from src.generators.generator import Generator
from src.generators.config import cfg
from src import utils

from vlib.symex import Ob, T
from vlib.runner import Job, REPO
from vlib.symrandom import installed, config
from vlib.props import C08

LANGS = ['java', 'kotlin', 'groovy', 'scala']


def projections(t, acc=None, depth=0):
    """all WildCardType occurrences inside a type (arguments, bounds, supertypes are not followed)"""
    acc = [] if acc is None else acc
    if t is None or depth > 12:
        return acc
    if isinstance(t, tp.WildCardType):
        acc.append(t)
        projections(t.bound, acc, depth + 1)
    elif isinstance(t, tp.ParameterizedType):
        for a in t.type_args:
            projections(a, acc, depth + 1)
    elif isinstance(t, tp.TypeParameter):
        projections(t.bound, acc, depth + 1)
    elif isinstance(t, tp.TypeConstructor):
        for p in t.type_parameters:
            projections(p, acc, depth + 1)
    return acc


def switch_obs(prefix, types, dis_usv, dis_contra, case):
    obs = []
    projs = [p for t in types for p in projections(t)]
    contra = [p for p in projs if p.variance.is_contravariant()]
    obs.append(Ob('%s|no-projection-when-use-site-variance-disabled' % prefix, not (dis_usv and projs),
                  dict(case, projections=[str(p) for p in projs][:4])))
    obs.append(Ob('%s|no-contravariant-projection-when-disabled' % prefix, not (dis_contra and contra),
                  dict(case, projections=[str(p) for p in contra][:4])))
    return obs, projs


def make_generator(lang, rich, small_pools=False):
    g = Generator(language=lang)
    g.context = Context()
    f = g.bt_factory
    A = ast.ClassDeclaration('Aa', [], ast.ClassDeclaration.REGULAR, is_final=False)
    g.context.add_class(ast.GLOBAL_NAMESPACE, A.name, A)
    X = tp.TypeParameter('X')
    G = ast.ClassDeclaration('Gg', [], ast.ClassDeclaration.REGULAR, is_final=False, type_parameters=[X])
    g.context.add_class(ast.GLOBAL_NAMESPACE, G.name, G)
    if rich:
        Y1 = tp.TypeParameter('Y1')
        Y2 = tp.TypeParameter('Y2', bound=G.get_type().new([Y1]))
        K = ast.ClassDeclaration('Kk', [], ast.ClassDeclaration.REGULAR, is_final=False, type_parameters=[Y1, Y2])
        g.context.add_class(ast.GLOBAL_NAMESPACE, K.name, K)
    # reduced built-in pools (stated bound): one plain type, the top type, one function type
    g.ret_builtin_types = [f.get_integer_type(), f.get_any_type()]
    g.builtin_types = g.ret_builtin_types + [f.get_void_type()]
    g.function_types = [f.get_function_type(1)]
    if small_pools:
        g.ret_builtin_types = [f.get_integer_type()]
        g.builtin_types = g.ret_builtin_types + [f.get_void_type()]
        g.function_types = []
    return g


def h_gen_type_params(eng, lang, rich, small_pools=False):
    with_variance = bool(eng.fresh_bool('with_variance'))
    for_function = bool(eng.fresh_bool('for_function'))
    bounded_off = bool(eng.fresh_bool('bounded_type_parameters_disabled'))
    dis_usv = bool(eng.fresh_bool('dis_use_site_variance'))
    dis_contra = bool(eng.fresh_bool('dis_contravariance'))
    g = make_generator(lang, rich, small_pools)
    with installed(eng) as rnd, config(dis__use_site_variance=dis_usv, dis__use_site_contravariance=dis_contra,
                                       prob__bounded_type_parameters=0 if bounded_off else 0.5,
                                       limits__max_type_params=2):
        tps = g.gen_type_params(with_variance=with_variance, for_function=for_function,
                                blacklist=g._get_type_variable_names())
        log = list(rnd.log)
    case = dict(unit='gen_type_params', language=lang, with_variance=with_variance, for_function=for_function,
                bounded_disabled=bounded_off, use_site_variance_disabled=dis_usv, contravariance_disabled=dis_contra,
                result=[str(t) for t in tps], rng=log[:10])
    obs, projs = switch_obs('gen_type_params', tps, dis_usv, dis_contra, case)
    obs.append(Ob('gen_type_params|no-bound-when-disabled', not (bounded_off and any(t.bound is not None for t in tps)), case))
    obs.append(Ob('gen_type_params|variance-only-when-asked',
                  with_variance or all(t.variance == tp.Invariant for t in tps), case))
    obs.append(Ob('gen_type_params|bound-not-primitive', all(t.bound is None or not t.bound.is_primitive() for t in tps), case))
    if tps:
        eng.event('type-params')
    if any(t.bound is not None for t in tps):
        eng.event('bounded')
    if projs:
        eng.event('projection-emitted')
    eng.notes['sample'] = case
    eng.notes['observe'] = case['result']
    return obs


def h_select_type(eng, lang, small_pools=False):
    dis_usv = bool(eng.fresh_bool('dis_use_site_variance'))
    dis_contra = bool(eng.fresh_bool('dis_contravariance'))
    g = make_generator(lang, True, small_pools)
    with installed(eng) as rnd, config(dis__use_site_variance=dis_usv, dis__use_site_contravariance=dis_contra):
        t = g.select_type()
        log = list(rnd.log)
    case = dict(unit='select_type', language=lang, use_site_variance_disabled=dis_usv,
                contravariance_disabled=dis_contra, result=str(t), rng=log[:10])
    obs, projs = switch_obs('select_type', [t], dis_usv, dis_contra, case)
    obs.append(Ob('select_type|usable', not t.is_type_constructor(), case))
    if projs:
        eng.event('projection-emitted')
    eng.event('selected')
    eng.notes['sample'] = case
    eng.notes['observe'] = str(t)
    return obs


def h_func_header(eng, lang, small_pools=False):
    """gen_func_decl with parameter/body generation stubbed: type parameters, their removal when
    unused, and the switches"""
    pf_off = bool(eng.fresh_bool('parameterized_functions_disabled'))
    bounded_off = bool(eng.fresh_bool('bounded_type_parameters_disabled'))
    dis_usv = bool(eng.fresh_bool('dis_use_site_variance'))
    dis_contra = bool(eng.fresh_bool('dis_contravariance'))
    use_tparam = int(eng.fresh_int(0, 2, 'signature_uses'))      # 0: none, 1: first type parameter, 2: last
    g = make_generator(lang, True, small_pools)
    f = g.bt_factory

    def params_stub():
        tps = list(g.context.get_types(g.namespace, only_current=True).values())
        if use_tparam and tps:
            t = tps[0] if use_tparam == 1 else tps[-1]
            p = ast.ParameterDeclaration('p0', t)
            return [p]
        return []
    g._gen_func_params = params_stub
    g._gen_func_params_with_default = params_stub
    g._get_func_ret_type = lambda params, etype, not_void=False: f.get_integer_type()
    g._gen_func_body = lambda ret_type: ast.BottomConstant(ret_type)
    with installed(eng) as rnd, config(dis__use_site_variance=dis_usv, dis__use_site_contravariance=dis_contra,
                                       prob__bounded_type_parameters=0 if bounded_off else 0.5,
                                       prob__parameterized_functions=0 if pf_off else 0.3,
                                       limits__max_type_params=2):
        fn = g.gen_func_decl()
        log = list(rnd.log)
    tps = fn.type_parameters
    case = dict(unit='gen_func_decl(header)', language=lang, parameterized_functions_disabled=pf_off,
                bounded_disabled=bounded_off, use_site_variance_disabled=dis_usv, contravariance_disabled=dis_contra,
                type_parameters=[str(t) for t in tps], params=[str(p.get_type()) for p in fn.params], rng=log[:12])
    types = list(tps) + [p.get_type() for p in fn.params] + [fn.ret_type]
    obs, projs = switch_obs('gen_func_decl', types, dis_usv, dis_contra, case)
    obs.append(Ob('gen_func_decl|no-type-parameters-when-disabled', not (pf_off and tps), case))
    obs.append(Ob('gen_func_decl|type-parameters-invariant', all(t.variance == tp.Invariant for t in tps), case))
    obs.append(Ob('gen_func_decl|no-bound-when-disabled', not (bounded_off and any(t.bound is not None for t in tps)), case))
    declared = set(g.context.get_types(g.namespace + (fn.name,), only_current=True).keys())
    obs.append(Ob('gen_func_decl|context-lists-exactly-the-type-parameters', declared == {t.name for t in tps}, case))
    if tps:
        eng.event('parameterized')
    if projs:
        eng.event('projection-emitted')
    eng.event('func')
    eng.notes['sample'] = case
    eng.notes['observe'] = case['type_parameters']
    return obs


def h_class_header(eng, lang, small_pools=False):
    bounded_off = bool(eng.fresh_bool('bounded_type_parameters_disabled'))
    dis_usv = bool(eng.fresh_bool('dis_use_site_variance'))
    dis_contra = bool(eng.fresh_bool('dis_contravariance'))
    g = make_generator(lang, False, small_pools)
    g._select_superclass = lambda only_interfaces: None
    g.gen_class_fields = lambda *a, **k: []
    g.gen_class_functions = lambda *a, **k: []
    with installed(eng) as rnd, config(dis__use_site_variance=dis_usv, dis__use_site_contravariance=dis_contra,
                                       prob__bounded_type_parameters=0 if bounded_off else 0.5,
                                       limits__max_type_params=2):
        cls = g.gen_class_decl()
        log = list(rnd.log)
    tps = cls.type_parameters
    case = dict(unit='gen_class_decl(header)', language=lang, bounded_disabled=bounded_off,
                use_site_variance_disabled=dis_usv, type_parameters=[str(t) for t in tps], rng=log[:12])
    obs, projs = switch_obs('gen_class_decl', tps, dis_usv, dis_contra, case)
    variant = any(t.variance != tp.Invariant for t in tps)
    obs.append(Ob('gen_class_decl|declaration-site-variance-only-in-kotlin-scala',
                  not variant or lang in ('kotlin', 'scala'), case))
    obs.append(Ob('gen_class_decl|no-bound-when-disabled', not (bounded_off and any(t.bound is not None for t in tps)), case))
    if variant:
        eng.event('variant-class')
    eng.event('class')
    eng.notes['sample'] = case
    eng.notes['observe'] = case['type_parameters']
    return obs


def h_create_type_params(eng, lang):
    """_create_type_params_from_etype: the type parameters created for a class that must mention a given type"""
    shape = int(eng.fresh_int(0, 2, 'shape'))
    dis_usv = bool(eng.fresh_bool('dis_use_site_variance'))
    g = make_generator(lang, False, True)
    T, U = tp.TypeParameter('T'), tp.TypeParameter('U', bound=g.bt_factory.get_integer_type())
    Gt = g.context.get_classes(ast.GLOBAL_NAMESPACE)['Gg'].get_type()
    etype = {0: T, 1: Gt.new([T]), 2: Gt.new([Gt.new([U])])}[shape]
    g.namespace = ast.GLOBAL_NAMESPACE + ('Cls',)
    with installed(eng) as rnd, config(dis__use_site_variance=dis_usv, limits__max_type_params=2,
                                       prob__bounded_type_parameters=0):
        tps, tvm, can_wild = g._create_type_params_from_etype(etype)
        log = list(rnd.log)
    case = dict(unit='_create_type_params_from_etype', language=lang, etype=str(etype), type_parameters=[str(t) for t in tps],
                rng=log[:10])
    variant = [t for t in tps if t.variance != tp.Invariant]
    obs = [Ob('create_type_params|declaration-site-variance-only-in-kotlin-scala', not variant or lang in ('kotlin', 'scala'), case),
           Ob('create_type_params|mapped-parameters-invariant', all(v.variance == tp.Invariant for v in tvm.values()), case)]
    if shape in (0, 1):
        # bounded type parameters are disabled and the expected type mentions an unbounded variable only
        obs.append(Ob('create_type_params|no-bound-when-disabled', all(t.bound is None for t in tps), case))
    obs2, _ = switch_obs('create_type_params', tps, dis_usv, False, case)
    eng.event('created')
    if len(tps) > len(tvm):
        eng.event('surplus-parameter')
    eng.notes['sample'] = case
    return obs + obs2


def h_cli(eng):
    """the four command-line switches reach the configuration singleton: src.args is imported in a fresh
    interpreter for every combination of the four flags (it parses sys.argv at import)"""
    import json as _json
    import subprocess
    import sys as _sys
    flags = [('--disable-use-site-variance', bool(eng.fresh_bool('f_usv'))),
             ('--disable-contravariance-use-site', bool(eng.fresh_bool('f_contra'))),
             ('--disable-bounded-type-parameters', bool(eng.fresh_bool('f_bounded'))),
             ('--disable-parameterized-functions', bool(eng.fresh_bool('f_pf')))]
    argv = ['hephaestus.py', '--bugs', '/nonexistent-vcheck', '--name', 'x', '--iterations', '1'] + [f for f, on in flags if on]
    code = ('import sys, json; sys.argv=%r; import src.args; from src.generators.config import cfg; '
            'print(json.dumps([cfg.dis.use_site_variance, cfg.dis.use_site_contravariance, '
            'cfg.prob.bounded_type_parameters, cfg.prob.parameterized_functions]))' % (argv,))
    r = subprocess.run([_sys.executable, '-c', code], cwd=REPO, capture_output=True, text=True, timeout=120,
                       env=dict(os.environ, PYTHONPATH=REPO))
    case = dict(flags=[f for f, on in flags if on], stdout=r.stdout[-200:], stderr=r.stderr[-300:])
    if r.returncode != 0:
        return [Ob('cli|src.args-imports', False, case)]
    usv, contra, bounded, pf = _json.loads(r.stdout.strip().splitlines()[-1])
    eng.event('cli')
    eng.notes['sample'] = case
    return [Ob('cli|use-site-variance', bool(usv) == flags[0][1], case),
            Ob('cli|use-site-contravariance', bool(contra) == flags[1][1], case),
            Ob('cli|bounded-type-parameters', (bounded == 0) == flags[2][1], case),
            Ob('cli|parameterized-functions', (pf == 0) == flags[3][1], case)]


def h_variable_free(eng, lang):
    """the two helpers that rebuild a type without type variables -- they create projections"""
    dis_usv = bool(eng.fresh_bool('dis_use_site_variance'))
    dis_contra = bool(eng.fresh_bool('dis_contravariance'))
    pv = int(eng.fresh_int(0, 2, 'declared'))
    shape = int(eng.fresh_int(0, 2, 'shape'))
    factory = {'java': jt.JavaBuiltinFactory, 'kotlin': kt.KotlinBuiltinFactory, 'groovy': gt.GroovyBuiltinFactory,
               'scala': st.ScalaBuiltinFactory}[lang]()
    X = tp.TypeParameter('X', [tp.Invariant, tp.Covariant, tp.Contravariant][pv])
    G = tp.TypeConstructor('G', [X], [factory.get_any_type()])
    T1 = tp.TypeParameter('T1')
    inner = {0: G.new([T1]), 1: G.new([G.new([T1])]), 2: G.new([tp.WildCardType(T1, tp.Covariant)])}[shape]
    T2 = tp.TypeParameter('T2', bound=inner)
    with config(dis__use_site_variance=dis_usv, dis__use_site_contravariance=dis_contra):
        r1 = inner.to_type_variable_free(factory)
        r2 = T2.get_bound_rec(factory)
    case = dict(unit='to_type_variable_free/get_bound_rec', language=lang, declared=['inv', 'co', 'contra'][pv],
                input=str(inner), use_site_variance_disabled=dis_usv, result=[str(r1), str(r2)])
    obs, projs = switch_obs('type-variable-free', [r1, r2], dis_usv, dis_contra, case)
    obs.append(Ob('type-variable-free|no-type-variables', not r1.has_type_variables() and not r2.has_type_variables(), case))
    eng.event('rebuilt')
    eng.notes['sample'] = case
    eng.notes['observe'] = case['result']
    return obs


# ------------------------------------------------------- static side-condition
COVERED_SITES = {
    ('src/ir/types.py', '_get_type_substitution'): 'copies an existing projection (C07 shapes)',
    ('src/ir/types.py', '_to_type_variable_free'): 'h_variable_free',
    ('src/ir/types.py', 'to_type_variable_free'): 'h_variable_free',
    ('src/ir/type_utils.py', '_find_candidate_type_args'): 'C09 find_subtypes (re-wraps a projection of the query)',
    ('src/ir/type_utils.py', '_compute_type_variable_assignments'): 'variance lemma + C08 instantiate',
}


def wildcard_sites():
    sites = set()
    for root, _, files in os.walk(os.path.join(REPO, 'src')):
        for fn in files:
            if not fn.endswith('.py'):
                continue
            path = os.path.join(root, fn)
            rel = os.path.relpath(path, REPO)
            with open(path) as f:
                try:
                    tree = pyast.parse(f.read())
                except SyntaxError:
                    continue
            for node in pyast.walk(tree):
                if isinstance(node, (pyast.FunctionDef, pyast.AsyncFunctionDef)):
                    for sub in pyast.walk(node):
                        if isinstance(sub, pyast.Call):
                            f_ = sub.func
                            name = f_.attr if isinstance(f_, pyast.Attribute) else getattr(f_, 'id', None)
                            if name == 'WildCardType':
                                sites.add((rel, node.name))
    return sites


def h_sites(eng):
    sites = wildcard_sites()
    # nested functions are reported under every enclosing def: keep the innermost known name
    unknown = sorted(s for s in sites if s not in COVERED_SITES and not s[0].startswith('src/translators')
                     and not any((s[0], k[1]) in COVERED_SITES for k in [s]))
    eng.event('sites-scanned')
    eng.notes['sample'] = dict(wildcard_construction_sites=sorted(sites))
    if unknown:
        raise RuntimeError('WildCardType is constructed at sites no obligation covers: %s' % unknown)
    return [Ob('sites-covered', True)]


FUNCS = [tu._get_type_arg_variance, Generator.gen_type_params, Generator.select_type, Generator.get_types,
         Generator.gen_func_decl, Generator._remove_unused_type_params, Generator.gen_class_decl,
         tp.ParameterizedType.to_type_variable_free, tp.TypeParameter.get_bound_rec, tp._to_type_variable_free,
         tu.instantiate_type_constructor]
STUBS = C08.STUBS + ['cfg.prob.bounded_type_parameters / parameterized_functions in {0, default}; cfg.limits.max_type_params = 2',
                     'Generator built-in pools reduced to {Int, top type, void} and one function type',
                     'gen_func_decl: parameter / return type / body generation stubbed (header only); gen_class_decl: '
                     'superclass, fields and functions stubbed (header only)']
OUT = ('whole generated programs (a full Generator.generate() run cannot be closed); the body-level generators '
       '(covered through C08/C09 helpers only); built-in pools beyond the reduced ones')


def jobs(tier):
    out = [Job('variance-lemma', C08.h_variance_lemma, {}, serial=True, functions=[tu._get_type_arg_variance],
               stubs=STUBS, require_events=['variance=inv', 'variance=co', 'variance=contra'],
               bounds='as C08 variance lemma', outside=OUT),
           Job('wildcard-construction-sites', h_sites, {}, serial=True, crosscheck_every=0, functions=[],
               require_events=['sites-scanned'], bounds='AST scan of /repo/src at run time', outside=OUT)]
    out.append(Job('cli-switch-wiring', h_cli, {}, split_depth=2, crosscheck_every=0, functions=[], require_events=['cli'],
                   bounds='all 16 combinations of the four --disable-* flags, src.args imported in a fresh interpreter',
                   outside=OUT))
    langs = LANGS if tier == 'thorough' else ['java', 'kotlin']
    sp = tier == 'quick'
    pools = ('built-in pools {Int, void}, no function types' if sp else 'built-in pools {Int, top, void} + Function1')
    for lang in langs:
        for rich in ((False, True) if tier == 'thorough' else (False,)):
            out.append(Job('gen_type_params-%s-%s' % (lang, 'rich' if rich else 'small'), h_gen_type_params,
                           dict(lang=lang, rich=rich, small_pools=sp), split_depth=6, functions=FUNCS, stubs=STUBS, budget_s=1500,
                           require_events=['type-params', 'bounded', 'projection-emitted'], crosscheck_every=200,
                           bounds='with_variance, for_function and the four switches symbolic; <=2 type parameters; '
                                  'classes Aa, Gg<X>%s; %s; every RNG outcome' % (', Kk<Y1, Y2 : Gg<Y1>>' if rich else '', pools),
                           outside=OUT))
        out.append(Job('select_type-%s' % lang, h_select_type, dict(lang=lang, small_pools=sp), split_depth=4, functions=FUNCS, stubs=STUBS,
                       require_events=['selected', 'projection-emitted'], crosscheck_every=200,
                       bounds='both variance switches symbolic; every RNG outcome', outside=OUT))
        out.append(Job('gen_func_decl-header-%s' % lang, h_func_header, dict(lang=lang, small_pools=sp), split_depth=6, functions=FUNCS,
                       stubs=STUBS, require_events=['func', 'parameterized'], crosscheck_every=200, budget_s=1500,
                       bounds='four switches symbolic; signature uses no / the first / the last type parameter', outside=OUT))
        out.append(Job('gen_class_decl-header-%s' % lang, h_class_header, dict(lang=lang, small_pools=sp), split_depth=6, functions=FUNCS,
                       stubs=STUBS, require_events=['class'] + (['variant-class'] if lang in ('kotlin', 'scala') else []),
                       crosscheck_every=200, bounds='three switches symbolic; every RNG outcome', outside=OUT))
        out.append(Job('create_type_params-%s' % lang, h_create_type_params, dict(lang=lang), split_depth=5,
                       functions=[Generator._create_type_params_from_etype, Generator.gen_type_params], stubs=STUBS,
                       require_events=['created', 'surplus-parameter'], crosscheck_every=200,
                       bounds='etype in {T, Gg<T>, Gg<Gg<U : Int>>}; <=2 type parameters, no bounds drawn; use-site-variance switch symbolic; '
                              'every RNG outcome', outside=OUT))
        out.append(Job('type-variable-free-%s' % lang, h_variable_free, dict(lang=lang), serial=True, functions=FUNCS[7:10],
                       stubs=STUBS, require_events=['rebuilt'],
                       bounds='G<v X> with 3 argument shapes; both switches symbolic', outside=OUT))
    from vlib import genunits_cls as UC
    out += UC.jobs('C17', tier, langs, units=('class_members',))
    return out


META = dict(
    level='other',
    technique='symbolic lemma on _get_type_arg_variance + bounded symbolic execution of the type-emitting generator '
              'units under a symbolic RNG with the four switches symbolic; static scan of WildCardType construction sites',
    assumptions=['unit level only: whole programs are not explored', 'symbolic RNG contract'],
)


def mutants():
    out = []
    orig = Generator.gen_type_params

    def bad(self, count=None, with_variance=False, blacklist=None, for_function=False):
        return orig(self, count, True if self.language == 'java' and not for_function else with_variance,
                    blacklist, for_function)
    out.append(('java classes get declaration-site variance',
                lambda: setattr(Generator, 'gen_type_params', bad), lambda: setattr(Generator, 'gen_type_params', orig)))
    return out
