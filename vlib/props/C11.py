"""C11 -- translation is a pure function of the program.

Family members (fixtures + generated programs) are translated by the real translators
after a symbolic history of earlier translations performed by the same translator
object; the RNG consumed by the translation under test (Program.get_types instantiates
built-in type constructors) is symbolic.  The text must equal the baseline of a fresh
translator on a fresh copy, and the program must be left unchanged.
"""
import pickle

from src import utils
from src.ir import ast

from vlib.symex import Ob
from src.ir import types as tp
from vlib.runner import Job
from vlib.symrandom import installed
from vlib import families as F

_BASE = {}
_BYTES = {}


def members(tier):
    key = ('members', tier)
    if key not in _BASE:
        ms = F.fixtures()
        seeds = [1, 2] if tier == 'quick' else [1, 2, 3, 4, 5]
        for lang in F.LANGS:
            ms += F.generated(lang, seeds)
        from vlib import templates
        ms += templates.all_templates()
        _BASE[key] = [n for n, _ in ms]
        for n, p in ms:
            _BYTES[n] = pickle.dumps(p)
    return _BASE[key]


class FixedRandom:
    """deterministic stand-in used for history translations and baselines: first element / False / lower bound"""

    def __enter__(self):
        self.saved = {m: utils.random.__dict__.get(m) for m in ('choice', 'bool', 'integer', 'sample')}
        utils.random.choice = lambda seq: list(seq)[0]
        utils.random.bool = lambda prob=0.5: False
        utils.random.integer = lambda a=0, b=10: a
        utils.random.sample = lambda seq, k=None: list(seq)[:k or 0]
        return self

    def __exit__(self, *a):
        for m, v in self.saved.items():
            if v is None:
                try:
                    delattr(utils.random, m)
                except AttributeError:
                    pass
            else:
                setattr(utils.random, m, v)
        return False


def fresh(name):
    return pickle.loads(_BYTES[name])


def baseline(name, lang, cast):
    k = (name, lang, cast)
    if k not in _BASE:
        try:
            with FixedRandom():
                _BASE[k] = F.translate(lang, fresh(name), options={'cast_numbers': cast})
        except Exception as e:      # not translatable by a fresh translator: no family member for this language
            _BASE[k] = e
    return _BASE[k]


def snapshot(p):
    """structural snapshot of a program: the text of its own printed form plus the pickle of its declarations'
    attribute dictionaries rendered with repr (ids excluded)"""
    out = []
    seen = set()

    def walk(n, depth=0):
        if id(n) in seen or depth > 60:
            return
        seen.add(id(n))
        d = getattr(n, '__dict__', None)
        if d is None:
            return
        items = []
        for k in sorted(d):
            v = d[k]
            if isinstance(v, (str, int, float, bool, type(None))):
                items.append((k, v))
            elif isinstance(v, tp.Type):
                items.append((k, type(v).__name__, str(v), getattr(v, 'can_infer_type_args', None)))
            elif isinstance(v, ast.Node) or hasattr(v, 'name'):
                items.append((k, type(v).__name__, getattr(v, 'name', None)))
            elif isinstance(v, (list, tuple)):
                items.append((k, len(v), tuple(type(x).__name__ for x in v)))
        out.append((type(n).__name__, tuple(items)))
        for c in (n.children() if hasattr(n, 'children') else []):
            walk(c, depth + 1)
    for decl in p.context.get_declarations(ast.GLOBAL_NAMESPACE, only_current=True).values():
        walk(decl)
    ctx = sorted((str(ns), k, tuple(v)) for ns, ent in p.context._context.items() for k, v in ent.items())
    return (tuple(out), tuple(ctx))


def _first_erasable(p):
    from vlib.minityper import declarations_with_namespace
    for _, d in declarations_with_namespace(p):
        if isinstance(d, ast.VariableDeclaration) and d.var_type is not None and d.inferred_type is not None:
            return d
    return None


def h_purity(eng, lang, K, tier, hist_pool, sym_rng=True, sym_draws=None):
    """history of K operations before the translation under test.  Operations: the same translator translates a
    pool member / the program itself; a fresh translator of another language translates the program; a second
    translator of the same language is built from the *same options dict*; the program is changed in place (a
    declared variable type is removed, as TypeErasure does) -- the driver uses one translator per program across
    all stages.  The text must equal what a fresh translator (fresh options dict) produces for the program as it is now."""
    names = members(tier)
    cast = bool(eng.fresh_bool('cast_numbers'))
    cands = [n for n in names if isinstance(baseline(n, lang, cast), str)]
    pname = cands[int(eng.fresh_int(0, len(cands) - 1, 'member'))]
    p = fresh(pname)
    opts = {'cast_numbers': cast}             # one dict shared by every translator of this "session"
    translator = F.TRANSLATORS[lang]('src.pkg', opts)
    log = []
    pool = [n for n in hist_pool if isinstance(baseline(n, lang, cast), str)]
    nops = len(pool) + len(F.LANGS) + 2
    snap0 = snapshot(p)
    mutated = False
    with FixedRandom():
        for _ in range(K):
            op = int(eng.fresh_int(0, nops - 1, 'history'))
            if op < len(pool):
                utils.translate_program(translator, fresh(pool[op]))
                log.append('same translator: %s' % pool[op])
            elif op < len(pool) + len(F.LANGS):
                other = F.LANGS[op - len(pool)]
                if other == lang:
                    utils.translate_program(translator, p)
                    log.append('same translator: the program itself')
                elif isinstance(baseline(pname, other, cast), str) and not mutated:
                    F.translate(other, p, options={'cast_numbers': cast})
                    log.append('fresh %s translator: the program itself' % other)
                else:
                    log.append('(skipped: other-language translation)')
            elif op == nops - 2:
                translator = F.TRANSLATORS[lang]('src.pkg', opts)
                log.append('new translator from the same options dict')
            else:
                d = _first_erasable(p)
                if d is not None:
                    d.omit_type()
                    mutated = True
                    snap0 = snapshot(p)
                    log.append('program changed in place: declared type of %s removed' % d.name)
                else:
                    log.append('(skipped: nothing to erase)')
    if sym_rng:
        with installed(eng, max_draws=200, max_sym_draws=sym_draws) as rnd:
            text = utils.translate_program(translator, p)
            draws = len(rnd.log)
    else:
        with FixedRandom():
            text = utils.translate_program(translator, p)
            draws = 0
    if mutated:
        with FixedRandom():
            want = F.translate(lang, P_clone(p), options={'cast_numbers': cast})
    else:
        want = baseline(pname, lang, cast)
    case = dict(member=pname, language=lang, cast_numbers=cast, history=log, rng_draws=draws)
    eng.event('translated')
    if draws:
        eng.event('consumed-randomness')
    if log:
        eng.event('with-history')
    if mutated:
        eng.event('in-place-change')
    eng.notes['sample'] = case
    eng.notes['observe'] = len(text)
    obs = [Ob('text-equals-fresh-baseline|%s|%s' % (lang, '>'.join(l.split(':')[0] for l in log)),
              text == want, lambda: dict(case, first_difference=_diff(text, want))),
           Ob('program-unchanged|%s' % lang, snapshot(p) == snap0, case),
           Ob('options-unchanged|%s' % lang, opts == {'cast_numbers': cast}, dict(case, options=str(opts)))]
    return obs


def P_clone(p):
    return pickle.loads(pickle.dumps(p))


def _diff(a, b):
    for i, (x, y) in enumerate(zip(a, b)):
        if x != y:
            return dict(offset=i, got=a[max(0, i - 60):i + 60], want=b[max(0, i - 60):i + 60])
    return dict(offset=min(len(a), len(b)), got_len=len(a), want_len=len(b))


def funcs():
    out = [utils.translate_program]
    for t in F.TRANSLATORS.values():
        out.append(t.visit_program)
        if hasattr(t, '_reset_state'):
            out.append(t._reset_state)
    return out


OUT = ('programs outside the families (fixtures + generated seeds listed); histories longer than K; history translations '
       'use a deterministic RNG (first element), only the translation under test explores every RNG outcome')


def jobs(tier):
    out = []
    # earlier translations by the same translator: members that leave translator state behind (nested functions, names in
    # different roles, operators in a super-constructor call, vararg parameters)
    hist_pool = (['template/nested-function-4params', 'template/name-role-global', 'template/name-role-parameter',
                  'template/super-constructor-comparison', 'template/vararg-parameter-generic'] if tier == 'quick' else
                 ['fixture/program1', 'fixture/type_analysis12', 'generated/java/seed1', 'generated/kotlin/seed2',
                  'template/nested-function-4params', 'template/name-role-global', 'template/name-role-parameter',
                  'template/name-role-function', 'template/super-constructor-comparison', 'template/vararg-parameter-generic'])
    nseeds = 2 if tier == 'quick' else 5
    for lang in F.LANGS:
        for K in ((2,) if tier == 'quick' else (1, 2, 3)):
            out.append(Job('history-%s-K%d' % (lang, K), h_purity,
                           dict(lang=lang, K=K, tier=tier, hist_pool=hist_pool, sym_rng=False),
                           split_depth=3, functions=funcs(), require_events=['translated', 'with-history'],
                           budget_s=2400, crosscheck_every=300, setup=lambda t=tier: members(t),
                           bounds='every family member (41 fixtures + %d generated programs per language) x every history '
                                  'of exactly %d earlier translations (same translator on %d pool members / on the program '
                                  'itself; fresh translators of the other languages on the program; a new translator from the same '
                                  'options dict; an in-place removal of a declared type) x cast_numbers; RNG deterministic'
                                  % (nseeds, K, len(hist_pool)), outside=OUT))
        out.append(Job('rng-%s' % lang, h_purity, dict(lang=lang, K=0, tier=tier, hist_pool=hist_pool, sym_rng=True,
                                                      sym_draws=2 if tier == 'quick' else 4),
                       split_depth=3, functions=funcs(), require_events=['translated'], budget_s=2400,
                       crosscheck_every=300, setup=lambda t=tier: members(t),
                       bounds='every family member x cast_numbers x every outcome of the first %d random draws the translation '
                              'consumes (Program.get_types instantiates built-in type constructors); later draws take the '
                              'first element' % (2 if tier == 'quick' else 4), outside=OUT))
    return out


META = dict(
    level='other',
    technique='bounded symbolic execution of the four translators over program families under a symbolic history of '
              'earlier translations and a symbolic RNG; differential against a fresh translator',
    assumptions=['family members are concrete programs (fixtures, generator seeds); the structural snapshot used for '
                 'program-unchanged reads node attributes and the context tables'],
)


def mutants():
    from src.translators.java import JavaTranslator
    out = []
    orig = JavaTranslator._reset_state

    def bad(self):
        keep = self._children_res if hasattr(self, '_children_res') else None
        orig(self)
        if hasattr(self, 'ident'):
            pass
        self._nodes_stack = getattr(self, '_nodes_stack', [None])
        self.package_kept = True
        # forget to clear the main-class buffer
        if hasattr(self, '_main_children'):
            pass
    out.append(('java translator keeps state: identation not reset',
                lambda: setattr(JavaTranslator, '_reset_state', lambda self: None),
                lambda: setattr(JavaTranslator, '_reset_state', orig)))
    return out
