"""C09 -- subtype search and irrelevant-type search return only what they promise.

Real find_subtypes / find_supertypes / find_irrelevant_type under a symbolic RNG on
bounded class tables (symbolic selectors); every returned type is judged by the
declarative relation of vlib/ref.py.
"""
from src.ir import types as tp, kotlin_types as kt, type_utils as tu

from vlib.symex import Ob
from vlib.runner import Job
from vlib.symrandom import installed, config
from vlib.ref import World, show
from vlib import univ
from vlib.props.C06 import gen_table, table_ok

FACTORY = kt.KotlinBuiltinFactory()


def extra_gen(eng, table):
    """optionally a generic class D<Q [: A]> that subclasses an instantiation of G"""
    kind = int(eng.fresh_int(0, 2, 'dsup'))      # 0: no D, 1: D<Q> : G<cls last>, 2: D<Q> : G<Q>
    if kind == 0:
        return None
    qb = bool(eng.fresh_bool('qbound')) if table.desc.get('vary_bounds', True) else False
    Q = tp.TypeParameter('Q', bound=table.classes[0] if qb else None)
    G = table.gens[0]
    sup = G.new([table.classes[-1]]) if kind == 1 else G.new([Q])
    return tp.TypeConstructor('D', [Q], [sup])


def dependent_gen(eng, table):
    """optionally a class K<v U, V : U> whose second parameter is bounded by the first"""
    if not bool(eng.fresh_bool('with_dependent_class')):
        return None
    v = int(eng.fresh_int(0, 2, 'kvar'))
    U = tp.TypeParameter('U', univ.VAR[v])
    V = tp.TypeParameter('V', bound=U)
    return tp.TypeConstructor('K', [U, V], [univ.ANY])


def setup_world(eng, nmax, with_d, fixed_n=None, vary_bounds=True, fix=None):
    table = gen_table(eng, nmax, fixed_n=fixed_n, vary_bounds=vary_bounds,
                      fix={k: v for k, v in (fix or {}).items() if k not in ('dependent', 'declarations')} or None)
    table.desc['gsup'] = (fix or {}).get('gsup', 0)
    table.desc['vary_bounds'] = vary_bounds
    w = table.world()
    if not table_ok(table, w):
        return None
    if fix is not None and fix.get('dependent'):
        k = dependent_gen(eng, table)
        if k is not None:
            table.gens.append(k)
            table.desc['K'] = str(k)
            w = table.world()
    if with_d:
        d = extra_gen(eng, table)
        if d is not None:
            if not w.within_bounds(w.snap(d.supertypes[0])):
                return None
            table.gens.append(d)
            table.desc['D'] = str(d)
            w = table.world()
    return table, w


_QCACHE = {}


def _Decl(t):
    """a real class declaration whose get_type() yields (a type equal to) t"""
    from src.ir import ast
    sups = [ast.SuperClassInstantiation(s_, []) for s_ in t.supertypes]
    if isinstance(t, tp.TypeConstructor):
        return ast.ClassDeclaration(t.name, sups, ast.ClassDeclaration.REGULAR, fields=[], functions=[],
                                    type_parameters=list(t.type_parameters))
    return ast.ClassDeclaration(t.name, sups, ast.ClassDeclaration.REGULAR, fields=[], functions=[])


def queries(table, w, depth):
    """ground query types of the table; cached per process and table description (building them costs
    ~10 ms of deep copies); the cache entry is dropped when the table's printed form changed"""
    key = (repr(table.desc), depth)
    sig = [str(g) for g in table.gens] + [str(c) for c in table.classes]
    c = _QCACHE.get(key)
    if c is not None and c[0] == sig and [str(x) for x in c[3]] == c[4]:
        return c[1], c[2], c[3]
    ts = univ.ground_types(table, depth, w, wf=True, builtins=False, star=True)
    _QCACHE[key] = (sig, table, w, ts, [str(x) for x in ts])
    return table, w, ts


def _first_plain(seq):
    """a choice that is no longer symbolic takes the first candidate that needs no further instantiation"""
    for i, x in enumerate(seq):
        t = x.get_type() if hasattr(x, 'get_type') and not isinstance(x, tp.Type) else x
        if not (isinstance(t, tp.Type) and t.is_type_constructor()):
            return i
    return 0


def h_search(eng, fn, nmax, depth, with_d, fixed_n=None, vary_bounds=True, builtins=True, fix=None, qshapes=None,
             sym_draws=None, inst_pool=False):
    sw = setup_world(eng, nmax, with_d, fixed_n, vary_bounds, fix)
    if sw is None:
        return [Ob('skip', True)]
    table, w = sw
    pool = list(table.classes) + list(table.gens) + [univ.ANY] + ([kt.Number, kt.Integer] if builtins else [])
    table, w, qs = queries(table, w, depth)
    qs = list(qs)
    pool = list(table.classes) + list(table.gens) + [univ.ANY] + ([kt.Number, kt.Integer] if builtins else [])
    if fix is not None and fix.get('declarations') and bool(eng.fresh_bool('pool_of_class_declarations')):
        # the generator hands class declarations (whose get_type() yields the type) instead of types
        pool = [_Decl(x) if not isinstance(x, tp.Builtin) else x for x in pool]
    if inst_pool and bool(eng.fresh_bool('pool_with_instantiations')):
        # Program.get_types() also hands in ready-made instantiations (of built-in constructors): entries that instantiate
        # the same generic class as the query
        pool = pool + [g.new([c]) for g in table.gens[:2] for c in table.classes]
        eng.event('pool-with-instantiations')
    if fn == 'find_irrelevant_type':
        X = tp.TypeParameter('TV', bound=table.classes[0])
        qs = qs + [X, tp.TypeParameter('TU'), tp.TypeParameter('TW', bound=table.classes[-1])]
        if builtins:
            # built-in queries: the numeric tower is part of the hierarchy (Int <: Number)
            qs = qs + [kt.Number, kt.Integer, tp.TypeParameter('TN', bound=kt.Number)]
    elif depth == 1:
        # queries mentioning a type variable of the enclosing declaration that happens to be named like the
        # parameter a generic class forwards to its supertype (variable capture)
        g, h = table.gens[0], table.gens[1]
        yv = tp.TypeParameter('Y', h.type_parameters[0].variance, h.type_parameters[0].bound)
        qs = qs + [g.new([yv]), g.new([tp.WildCardType(yv, tp.Covariant)])]
    if qshapes is not None:
        qs = [x for x in qs if show(w.snap(x)) in qshapes]
    q = qs[int(eng.fresh_int(0, len(qs) - 1, 'query'))]
    qt = w.snap(q)
    include_self = bool(eng.fresh_bool('include_self')) if fn != 'find_irrelevant_type' else False
    concrete = bool(eng.fresh_bool('concrete_only')) if fn != 'find_irrelevant_type' else True
    bound = None
    if fn == 'find_supertypes' and bool(eng.fresh_bool('with_bound')):
        bound = table.classes[0]
    dis_usv = bool(eng.fresh_bool('dis_use_site_variance'))
    exc = None
    with installed(eng, max_sym_draws=sym_draws, fixed_pick=_first_plain) as rnd, config(dis__use_site_variance=dis_usv):
        try:
            if fn == 'find_subtypes':
                res = tu.find_subtypes(q, list(pool), include_self=include_self, concrete_only=concrete)
            elif fn == 'find_supertypes':
                res = tu.find_supertypes(q, list(pool), include_self=include_self, bound=bound,
                                         concrete_only=concrete)
            else:
                r = tu.find_irrelevant_type(q, list(pool), FACTORY)
                res = [r]
        except (AssertionError, IndexError, KeyError, TypeError, AttributeError) as e:
            exc = e
        log = list(rnd.log)
    case = dict(function=fn, query=show(qt), include_self=include_self, concrete_only=concrete,
                bound=str(bound) if bound else None, table=table.desc,
                generic_classes=[str(g) for g in table.gens], rng=log[:10])
    qshape = _shape(w, qt)
    if exc is not None:
        eng.event('exception')
        return [Ob('no-exception|%s|%s|query=%s' % (fn, type(exc).__name__, qshape), False, dict(case, exception=repr(exc)))]
    obs = []
    if fn == 'find_irrelevant_type':
        r = res[0]
        case['result'] = str(r)
        if w.is_top(qt):
            obs.append(Ob('irrelevant|none-for-top', r is None, case))
        elif r is not None:
            base = qt
            if qt[0] == 'V':
                base = qt[2] if qt[2] is not None else w.top
            rt = w.snap(r)
            case['result'] = show(rt)
            unrelated = not w.sub(rt, base) and not w.sub(base, rt)
            if qt[0] == 'V' and (qt[2] is None or w.is_top(qt[2])):
                unrelated = not w.is_top(rt)     # unbounded variable: every type but the top type is unrelated to it
            inclass = w.in_exact_class(base) and w.in_exact_class(rt)
            obs.append(Ob('irrelevant|%s|query=%s,result=%s' % (
                'unrelated' if inclass else 'unrelated-outside-exactness-class', qshape, _shape(w, rt)), unrelated, case))
            obs.append(Ob('irrelevant|usable|query=%s' % qshape,
                          not w.mentions(rt, lambda x: x[0] == 'C'), case))
            eng.event('irrelevant-found')
        else:
            eng.event('irrelevant-none')
        obs.append(Ob('done', True))
    else:
        terms = [w.snap(r) for r in res]
        case['results'] = [show(t) for t in terms]
        for r, t in zip(res, terms):
            if fn == 'find_subtypes':
                rel = w.sub(t, qt) if t[0] != 'C' else w.sub(('P', t[1], tuple(('V', p[0], p[2]) for p in w.generic[t[1]][0])), qt)
                obs.append(Ob('subtypes|related|query=%s,result=%s' % (qshape, _shape(w, t)), rel, dict(case, result=show(t))))
            else:
                obs.append(Ob('supertypes|related|query=%s,result=%s' % (qshape, _shape(w, t)), w.sub(qt, t),
                              dict(case, result=show(t))))
                if bound is not None:
                    obs.append(Ob('supertypes|below-bound|query=%s' % qshape, w.sub(t, w.snap(bound)), dict(case, result=show(t))))
            if concrete:
                obs.append(Ob('%s|concrete|query=%s' % (fn, qshape), not w.mentions(t, lambda x: x[0] == 'C'),
                              dict(case, result=show(t))))
        has_self = qt in terms
        if fn == 'find_supertypes' and bound is not None and not w.sub(qt, w.snap(bound)):
            pass            # the query itself is filtered by the bound
        else:
            obs.append(Ob('%s|self-iff-asked|query=%s,include_self=%d' % (fn, qshape, include_self),
                          has_self == include_self, case))
        if len(terms) > (1 if include_self else 0):
            eng.event('nontrivial-results')
    eng.event('searched')
    eng.notes['sample'] = case
    eng.notes['observe'] = case.get('results', case.get('result'))
    return obs


def h_builtin_queries(eng, lang):
    """find_irrelevant_type on the language's own built-in types (the numeric tower is part of the hierarchy): query = any
    non-generic built-in type or a type variable bounded by one; pool = all non-generic built-ins + two user classes"""
    from src.ir import BUILTIN_FACTORIES
    f = BUILTIN_FACTORIES[lang]
    builtins = [t for t in f.get_non_nothing_types() if not t.is_type_constructor()]
    A = tp.SimpleClassifier('Aa', [f.get_any_type()])
    B = tp.SimpleClassifier('Bb', [A])
    pool = builtins + [A, B]
    qi = int(eng.fresh_int(0, len(builtins) - 1, 'query'))
    as_bound = bool(eng.fresh_bool('query_is_a_type_variable_bounded_by_it'))
    base = builtins[qi]
    q = tp.TypeParameter('TQ', bound=base) if as_bound else base
    w = World()
    w.top = w.snap(f.get_any_type())
    for t in pool:
        w.snap(t)
    with installed(eng, max_sym_draws=3) as rnd:
        r = tu.find_irrelevant_type(q, list(pool), f)
        log = list(rnd.log)
    bt = w.snap(base)
    case = dict(function='find_irrelevant_type', language=lang, query=str(q), result=str(r), rng=log[:6])
    eng.event('searched')
    obs = [Ob('done', True)]
    if w.is_top(bt):
        obs.append(Ob('irrelevant|none-for-top|%s' % lang, r is None or as_bound, case))
    elif r is not None:
        rt = w.snap(r)
        # related by the declared hierarchy of the built-ins, or the same built-in class in primitive / boxed form
        related = w.sub(rt, bt) or w.sub(bt, rt) or (rt[0] == 'B' and bt[0] == 'B' and rt[1] == bt[1])
        prim = lambda t: bool(getattr(t, 'primitive', False))      # noqa: E731
        qn = '%s%s' % (show(bt), '(primitive)' if prim(base) else '')
        obs.append(Ob('irrelevant|unrelated-builtin|%s|query=%s,result=%s%s' % (lang, qn, show(rt), '(primitive)' if prim(r) else ''),
                      not related, dict(case, result=show(rt), note='primitive types are identified with their boxes: a value of a '
                                        'primitive numeric type is assignable to Number (boxing, then widening)')))
        eng.event('irrelevant-found')
    eng.notes['sample'] = case
    eng.notes['observe'] = str(r)
    return obs


def _shape(w, x):
    if x is None:
        return '-'
    if x[0] == 'P':
        params = w.generic[x[1]][0]
        return '%s<%s>' % (x[1], ','.join('%s:%s' % (['inv', 'co', 'contra'][p[1]], _shape(w, a))
                                           for p, a in zip(params, x[2])))
    if x[0] == 'W':
        return '*' if x[2] is None else '%s %s' % ({1: 'out', 2: 'in', 0: 'inv'}[x[1]], _shape(w, x[2]))
    if x[0] == 'V':
        return 'var'
    return {'S': 'cls', 'B': 'builtin', 'C': 'constructor', 'N': 'nothing'}[x[0]]


FUNCS = [tu.find_subtypes, tu.find_supertypes, tu._find_types, tu._construct_related_types,
         tu._find_candidate_type_args, tu._replace_type_argument, tu.to_type, tu.find_irrelevant_type,
         tu.get_irrelevant_parameterized_type]
STUBS = ['src.utils.random -> symbolic RNG; cfg.dis.use_site_variance symbolic']
OUT = ('tables beyond the bounds; queries deeper than the bound; queries issued by real generator runs; bare generic '
       'classes returned with concrete_only=False are judged through their self-instantiation')


def jobs(tier):
    out = []
    # find_supertypes is exercised only through find_irrelevant_type: the property does not speak of it
    if tier == 'quick':
        plan = [('find_subtypes', dict(nmax=2, depth=1, with_d=False, fixed_n=2, vary_bounds=False, builtins=False)),
                ('find_irrelevant_type', dict(nmax=2, depth=1, with_d=True, fixed_n=2, vary_bounds=False, builtins=False,
                                              fix=dict(hvar=0),
                                              qshapes=['A', 'B', 'Any', 'G<A>', 'G<*>', 'H<A>', 'H<*>', 'TV', 'TU', 'TW']))]
        plan.append(('find_subtypes', dict(nmax=2, depth=1, with_d=False, fixed_n=2, vary_bounds=False, builtins=False,
                                           fix=dict(hvar=0, hsup=1, gvar=0, dependent=True, declarations=True),
                                           qshapes=['A', 'B', 'K<A, A>', 'K<A, B>', 'K<B, B>', 'K<out A, B>', 'H<A>', 'G<B>'])))
    else:
        plan = [('find_subtypes', dict(nmax=3, depth=1, with_d=False, fixed_n=3, builtins=False)),
                ('find_subtypes', dict(nmax=2, depth=1, with_d=False)),
                ('find_irrelevant_type', dict(nmax=2, depth=1, with_d=True, fixed_n=2, vary_bounds=False, builtins=False,
                                              fix=dict(hvar=0))),
                ('find_subtypes', dict(nmax=2, depth=2, with_d=False, fixed_n=2, vary_bounds=False, builtins=False,
                                       fix=dict(hvar=0, ext=[1])))]
    # a bounded parameter whose bound has a generic subclass: H<Y : A> : A and G<X> : A, class-declaration pools
    plan.append(('find_subtypes', dict(nmax=2, depth=1, with_d=False, fixed_n=2, vary_bounds=True, builtins=False,
                                       fix=dict(gvar=0, hvar=0, hsup=1, gsup=1, declarations=True), sym_draws=5,
                                       qshapes=['A', 'B', 'H<A>', 'H<B>', 'H<out A>', 'G<A>'])))
    plan.append(('find_irrelevant_type', dict(nmax=2, depth=1, with_d=False, fixed_n=2, vary_bounds=True, builtins=False,
                                              fix=dict(gvar=0, hvar=0, hsup=1, gsup=1, declarations=True), sym_draws=5,
                                              qshapes=['A', 'B', 'TV', 'TU', 'TW'])))
    # ready-made instantiations in the pool, built-in queries
    plan.append(('find_irrelevant_type', dict(nmax=2, depth=1, with_d=False, fixed_n=2, vary_bounds=False, builtins=True,
                                              fix=dict(hvar=0, hsup=0), inst_pool=True, sym_draws=4,
                                              qshapes=['A', 'B', 'G<A>', 'G<B>', 'H<A>', 'H<B>', 'Number', 'Int', 'TN', 'TV'])))
    plan.append(('find_subtypes', dict(nmax=2, depth=2, with_d=False, fixed_n=2, vary_bounds=False, builtins=False,
                                       fix=dict(gvar=2, hvar=0),
                                       qshapes=['H<in H<out B>>', 'G<H<in Any>>', 'H<in G<out A>>', 'H<out H<in B>>',
                                                'G<in H<out A>>'])))
    for fn, prm in plan:
        out.append(Job('%s-n%d-depth%d%s%s%s' % (fn, prm['nmax'], prm['depth'], '-D' if prm['with_d'] else '',
                                                '-fix' + '_'.join(sorted(prm['fix'])) if prm.get('fix') else '',
                                                '-instpool' if prm.get('inst_pool') else ''), h_search, dict(fn=fn, **prm),
                       split_depth=6, functions=FUNCS, stubs=STUBS, budget_s=3000, crosscheck_every=500,
                       require_events=['searched'] + (['nontrivial-results'] if fn != 'find_irrelevant_type'
                                                     else ['irrelevant-found']),
                       bounds='tables with %s%d classes, G<v X%s>, H<v Y%s> : 5 supertype shapes%s; every well-formed '
                              'ground query of depth <= %d (plus bounded/unbounded type variables for the irrelevant '
                              'search)%s; include_self/concrete_only symbolic; every RNG outcome'
                              % (('(fixed selectors: %s) ' % prm['fix'] if prm.get('fix') else '') + ('' if prm.get('fixed_n') else '<='), prm['nmax'],
                                 '[:A]' if prm.get('vary_bounds', True) else '', '[:A]' if prm.get('vary_bounds', True) else '',
                                 ', optional D<Q[:A]> : G<..>' if fn == 'find_irrelevant_type' else '', prm['depth'],
                                 (' restricted to the query shapes %s' % prm['qshapes'] if prm.get('qshapes') else '')
                                 + ('; the pool may also hold the instantiations G<c>, H<c> of every class c, and Number / Int with built-in queries' if prm.get('inst_pool') else '')
                                 + ('; RNG: every outcome of the first %d draws, later draws take the first candidate that is not a generic class (with a pool of class '
                                    'declarations the nesting of instantiations is not bounded by the code)' % prm['sym_draws']
                                    if prm.get('sym_draws') else '')),
                       outside=OUT))
    for lang in (['java', 'kotlin'] if tier == 'quick' else ['java', 'kotlin', 'groovy', 'scala']):
        out.append(Job('find_irrelevant_type-builtins-%s' % lang, h_builtin_queries, dict(lang=lang), split_depth=4,
                       functions=FUNCS, stubs=STUBS, budget_s=900, crosscheck_every=200,
                       require_events=['searched', 'irrelevant-found'],
                       bounds='query: every non-generic built-in type of %s or a type variable bounded by it; pool: all non-generic '
                              'built-ins + classes Aa, Bb : Aa; every RNG outcome of the first 3 draws' % lang, outside=OUT))
    return out


META = dict(
    level='other',
    technique='bounded symbolic execution of the search helpers under a symbolic RNG on all small class tables, judged '
              'by the declarative relation',
    assumptions=['symbolic RNG contract', 'declarative relation vlib/ref.py'],
)


def mutants():
    out = []
    orig = tu._find_types

    def bad(etype, types, get_subtypes, include_self, bound=None, concrete_only=False, ignore_variance=False):
        r = orig(etype, types, get_subtypes, include_self, bound, concrete_only, ignore_variance)
        if get_subtypes and not include_self:
            return r + [etype]           # the query leaks into its subtypes although not asked for
        return r
    out.append(('find_subtypes returns the query although include_self=False',
                lambda: setattr(tu, '_find_types', bad), lambda: setattr(tu, '_find_types', orig)))
    return out
