"""C10 -- type unification returns a unifier or nothing.

(I) lemmas on leaf types with judgement atoms (all depths of the components):
    repeated variable, bounded variable, projection kinds.
(II) bounded: real unify_types on (target, pattern) pairs over a class table,
    substitute-back with the real substitute_type judged on structural snapshots.
"""
import z3

from src.ir import types as tp, kotlin_types as kt, type_utils as tu

from vlib.symex import Ob, T, SymBool
from vlib.runner import Job
from vlib.atoms import Atoms, Leaf
from vlib.ref import World, show
from vlib import univ

FACTORY = kt.KotlinBuiltinFactory()
KN = ['plain', 'out', 'in', 'star']


def mkarg(kind, x):
    if kind == 0:
        return x
    if kind == 1:
        return tp.WildCardType(x, tp.Covariant)
    if kind == 2:
        return tp.WildCardType(x, tp.Contravariant)
    return tp.WildCardType()


# ------------------------------------------------------------------ lemmas
def h_lemma_repeated(eng):
    """P2<k1 a1, k2 a2> against P2<k X, k' X>: a non-empty answer needs a1 = a2 and matching projection kinds"""
    at = Atoms(eng)
    a1, a2 = Leaf('a1', at), Leaf('a2', at)
    P2 = tp.TypeConstructor('P2', [tp.TypeParameter('U'), tp.TypeParameter('V')])
    X = tp.TypeParameter('X')
    ks = [int(eng.fresh_int(0, 2, 'k')) for _ in range(4)]
    target = P2.new([mkarg(ks[0], a1), mkarg(ks[1], a2)])
    pattern = P2.new([mkarg(ks[2], X), mkarg(ks[3], X)])
    res = tu.unify_types(target, pattern, FACTORY)
    at.close([a1, a2])
    nonempty = bool(res)
    kinds_ok = all((ks[i + 2] == 0 and True) or ks[i] == ks[i + 2] for i in range(2))
    # with a plain variable in the pattern the whole argument (projection included) is assigned
    want = z3.And(at.eqt(a1, a2), kinds_ok, (ks[0] == ks[1]) if (ks[2] == 0 and ks[3] == 0) else True)
    case = dict(target=[KN[ks[0]], KN[ks[1]]], pattern=[KN[ks[2]], KN[ks[3]]], answer=str(res))
    eng.event('repeated:%s' % ('nonempty' if nonempty else 'empty'))
    eng.notes['sample'] = case
    return [Ob('lemma-repeated|target=%s/%s,pattern=%s/%s' % (KN[ks[0]], KN[ks[1]], KN[ks[2]], KN[ks[3]]),
               z3.Implies(z3.BoolVal(nonempty), want), case)]


def h_lemma_bounded(eng):
    """G<a> against G<X : b>: non-empty needs a <= b"""
    at = Atoms(eng)
    a, b = Leaf('a', at), Leaf('b', at)
    G = tp.TypeConstructor('G', [tp.TypeParameter('U')])
    X = tp.TypeParameter('X', bound=b)
    ka = int(eng.fresh_int(0, 2, 'ka'))
    kx = int(eng.fresh_int(0, 2, 'kx'))
    target = G.new([mkarg(ka, a)])
    pattern = G.new([mkarg(kx, X)])
    res = tu.unify_types(target, pattern, FACTORY)
    at.close([a, b])
    nonempty = bool(res)
    # which component is bound to X: the bare leaf (projection stripped when both are projections) or the
    # whole projected argument (plain variable in the pattern)
    if kx == 0 and ka != 0:
        want = z3.BoolVal(False)       # a projection is no type: it cannot satisfy a bound
    else:
        want = z3.And(at.d(a, b), (kx == 0) or (ka == kx))
    case = dict(target=KN[ka], pattern=KN[kx], answer=str(res))
    eng.event('bounded:%s' % ('nonempty' if nonempty else 'empty'))
    eng.notes['sample'] = case
    return [Ob('lemma-bounded|target=%s,pattern=%s' % (KN[ka], KN[kx]), z3.Implies(z3.BoolVal(nonempty), want), case)]


# ----------------------------------------------------------------- bounded
def table():
    A = tp.SimpleClassifier('A', [univ.ANY])
    B = tp.SimpleClassifier('B', [A])
    C = tp.SimpleClassifier('C', [univ.ANY])
    G = tp.TypeConstructor('G', [tp.TypeParameter('GX')], [univ.ANY])
    Y = tp.TypeParameter('HY')
    H = tp.TypeConstructor('H', [Y], [G.new([Y])])
    P2 = tp.TypeConstructor('P2', [tp.TypeParameter('U'), tp.TypeParameter('V')], [univ.ANY])
    D = tp.SimpleClassifier('D', [G.new([A])])
    return dict(A=A, B=B, C=C, D=D, G=G, H=H, P2=P2)


def patterns(t):
    A, G, H, P2 = t['A'], t['G'], t['H'], t['P2']
    X, Y = tp.TypeParameter('X'), tp.TypeParameter('Y')
    XA = tp.TypeParameter('XA', bound=A)
    XG = tp.TypeParameter('XG', bound=G.new([X]))
    out = lambda x: tp.WildCardType(x, tp.Covariant)       # noqa: E731
    inn = lambda x: tp.WildCardType(x, tp.Contravariant)   # noqa: E731
    return [
        ('X', X), ('XA', XA), ('XB', tp.TypeParameter('XB', bound=t['B'])), ('G<X>', G.new([X])), ('G<XA>', G.new([XA])), ('G<out X>', G.new([out(X)])),
        ('G<in X>', G.new([inn(X)])), ('G<G<X>>', G.new([G.new([X])])), ('P2<X,X>', P2.new([X, X])),
        ('P2<X,Y>', P2.new([X, Y])), ('P2<X,G<X>>', P2.new([X, G.new([X])])), ('P2<XA,X>', P2.new([XA, X])),
        ('P2<X,XG>', P2.new([X, XG])), ('G<out XA>', G.new([out(XA)])), ('P2<A,X>', P2.new([A, X])),
        ('P2<out X,in Y>', P2.new([out(X), inn(Y)])), ('H<X>', H.new([X])), ('G<H<X>>', G.new([H.new([X])])),
        ('P2<G<out X>,Y>', P2.new([G.new([out(X)]), Y])),
        # a variable bounded by a ground / dependent instantiation next to another variable
        ('P2<X,TGA>', P2.new([X, tp.TypeParameter('TGA', bound=G.new([A]))])),
        ('P2<X,TPX>', P2.new([X, tp.TypeParameter('TPX', bound=P2.new([A, X]))])),
        # the same variable nested and repeated
        ('P2<G<X>,X>', P2.new([G.new([X]), X])), ('P2<H<X>,G<X>>', P2.new([H.new([X]), G.new([X])])),
    ]


def var_targets(t):
    """type variables as targets (a generic method unified against another generic signature)"""
    X = tp.TypeParameter('X')        # the variable the patterns use: targets may mention it too
    G, H, P2, A, B = t['G'], t['H'], t['P2'], t['A'], t['B']
    return [tp.TypeParameter('T0'), tp.TypeParameter('TA', bound=t['A']), tp.TypeParameter('TB', bound=t['B']),
            tp.TypeParameter('TG', bound=t['G'].new([t['A']])),
            P2.new([G.new([X]), A]), P2.new([G.new([X]), X]), P2.new([H.new([X]), G.new([A])]),
            P2.new([A, G.new([B])]), P2.new([A, P2.new([A, B])]), P2.new([B, P2.new([A, A])])]


def targets(t, depth):
    base = [t['A'], t['B'], t['C'], t['D'], univ.ANY]
    res = list(base)
    for _ in range(depth):
        pool = univ.type_args(res, star=True)
        new = []
        for g in (t['G'], t['H']):
            new += [g.new([a]) for a in pool]
        small = univ.type_args(base, star=False)
        new += [t['P2'].new([a, b]) for a in small for b in small]
        if depth > 1 and _ == 0:
            res = res + new
        else:
            res = res + new
            break
    return res


def _match(w, p, tg, problems, path='$'):
    """pattern-after-substitution p against target term tg, open variables allowed"""
    if p == tg:
        return True
    if p[0] == 'V':
        # open position: the target's component must satisfy the variable's bound
        comp = tg
        if comp[0] == 'W':
            problems.append('%s: open variable %s faces a projection %s' % (path, p[1], show(comp)))
            return False
        if p[2] is not None and not w.sub(comp, p[2]):
            problems.append('%s: open variable %s : %s faces %s' % (path, p[1], show(p[2]), show(comp)))
            return False
        return True
    if p[0] == 'W' and tg[0] == 'W':
        if p[1] != tg[1] or (p[2] is None) != (tg[2] is None):
            problems.append('%s: projection %s vs %s' % (path, show(p), show(tg)))
            return False
        return p[2] is None or _match(w, p[2], tg[2], problems, path + '.bound')
    if p[0] == 'P' and tg[0] == 'P' and p[1] == tg[1] and len(p[2]) == len(tg[2]):
        return all(_match(w, a, b, problems, '%s.%d' % (path, i)) for i, (a, b) in enumerate(zip(p[2], tg[2])))
    problems.append('%s: %s vs %s' % (path, show(p), show(tg)))
    return False


def h_pairs(eng, depth, same_type):
    t = table()
    pats = patterns(t)
    pi = int(eng.fresh_int(0, len(pats) - 1, 'pattern'))
    pname, pattern = pats[pi]
    w = World()
    w.top = w.snap(univ.ANY)
    for v in t.values():
        w.snap(v)
    pterm = w.snap(pattern)
    tgts = targets(t, depth) + var_targets(t)
    nonempty = 0
    bad = None
    for tg in tgts:
        try:
            sigma = tu.unify_types(tg, pattern, FACTORY, same_type=same_type)
        except Exception as e:        # noqa
            bad = ('exception', tg, repr(e), None)
            break
        if not sigma:
            continue
        nonempty += 1
        tterm = w.snap(tg)
        problems = []
        # every assigned type satisfies the bound of its variable (after applying the assignment)
        m = {k.name: w.snap(v) for k, v in sigma.items()}
        for k, v in sigma.items():
            if k.bound is not None:
                b = w.subst(w.snap(k.bound), m)
                vt = w.snap(v)
                if vt[0] == 'W' or not w.sub(vt, b):
                    problems.append('assigned %s := %s violates bound %s' % (k.name, show(vt), show(b)))
        back = w.snap(tp.substitute_type(pattern, sigma))
        if back != w.subst(pterm, m):
            problems.append('real substitute_type gives %s, reference %s' % (show(back), show(w.subst(pterm, m))))
        cands = [tterm] if same_type else [tterm] + w.all_supers(tterm)
        if not any(_match(w, back, c, []) for c in cands):
            pr = []
            _match(w, back, tterm, pr)
            problems.append('substitute-back %s does not give the target%s: %s' % (
                show(back), '' if same_type else ' or a supertype', '; '.join(pr[:2])))
        if problems:
            bad = ('unifier', tg, problems, sigma)
            break
    case = dict(pattern=pname, same_type=same_type, targets=len(tgts), nonempty=nonempty)
    eng.event('pairs')
    if nonempty:
        eng.event('nonempty')
    eng.notes['sample'] = case
    eng.notes['observe'] = nonempty
    eng.stats['pairs'] = eng.stats.get('pairs', 0) + len(tgts)
    if bad:
        kind, tg, problems, sigma = bad
        return [Ob('%s|pattern=%s,same_type=%d,target=%s' % (kind, pname, same_type, _shape(w.snap(tg))), False,
                   dict(case, target=str(tg), answer=str(sigma), problems=problems))]
    return [Ob('pattern-ok', True)]


def _shape(x):
    if x[0] == 'P':
        return '%s<%s>' % (x[1], ','.join(_shape(a) for a in x[2]))
    if x[0] == 'W':
        return '*' if x[2] is None else '%s %s' % ({1: 'out', 2: 'in', 0: 'inv'}[x[1]], _shape(x[2]))
    return x[0] if x[0] != 'S' else 'cls'


FUNCS = [tu.unify_types, tu._update_type_var_map, tp.substitute_type, tp.TypeParameter.get_bound_rec]
OUT = ('patterns deeper than 2 or with more than 3 variables; Function types with more than 3 parameters; tables other '
       'than {A, B<:A, C, D:G<A>, G<X>, H<Y>:G<Y>, P2<U,V>}; in supertype-matching mode the code follows the last declared '
       'supertype only (single inheritance chains)')


def jobs(tier):
    out = [Job('lemma-repeated-variable', h_lemma_repeated, {}, serial=True, functions=FUNCS[:2],
               require_events=['repeated:nonempty', 'repeated:empty'],
               bounds='P2<k a1, k a2> vs P2<k X, k X>, projection kinds in {plain,out,in}^4, equality of the opaque '
                      'components a solver atom (any depth)', outside=OUT),
           Job('lemma-bounded-variable', h_lemma_bounded, {}, serial=True, functions=FUNCS[:2],
               require_events=['bounded:nonempty', 'bounded:empty'],
               bounds='G<k a> vs G<k X : b>, a <= b a solver atom under the induction hypothesis', outside=OUT)]
    for same in (True, False):
        d = 2
        out.append(Job('pairs-depth%d-%s' % (d, 'same' if same else 'super'), h_pairs, dict(depth=d, same_type=same),
                       split_depth=1, functions=FUNCS, require_events=['pairs', 'nonempty'], budget_s=1800,
                       crosscheck_every=3,
                       bounds='23 patterns (<=3 variables, bounded by a class / by G<X>, repeated, projected, nested) x all '
                              'ground targets of depth <= %d over the table plus 10 targets that are or mention type variables; same_type=%s' % (d, same), outside=OUT))
    return out


META = dict(
    level='other',
    technique='rule lemmas with judgement atoms on the real unify_types + bounded symbolic exploration of '
              '(target, pattern) pairs with substitute-back on structural snapshots',
    assumptions=['declarative relation and substitution of vlib/ref.py'],
)


def mutants():
    out = []
    orig = tu._update_type_var_map

    def bad(type_var_map, key, value):
        type_var_map[key] = value          # conflicts overwrite silently
        return True
    out.append(('conflicting bindings overwrite', lambda: setattr(tu, '_update_type_var_map', bad),
                lambda: setattr(tu, '_update_type_var_map', orig)))
    return out
