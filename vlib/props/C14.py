"""C14 -- compiler diagnostics are attributed to the right programs.

Layer 1: the live ERROR_REGEX / CRASH_REGEX / STACKOVERFLOW_REGEX objects of
src/compilers/*.py are translated mechanically (from re's own parse tree) to z3
regular expressions; inclusion / emptiness lemmas against line and block grammars
of each compiler's output are decided by z3's sequence solver over strings of
unbounded length.  Every `sat` answer is a witness string that is pushed
through the real `re` object before it is reported; every run also validates
the translation on solver-made members and non-members of each language.

Layer 2: the real analyze_compiler_output (base + Groovy override) on batch
skeletons whose diagnostic kinds, file indices, filter bits and crash trailer
are solver integers, texts instantiated from the grammars.
"""
import os
import re
import re._parser as sre_parse
import re._constants as sc
import shutil
import subprocess
import tempfile
import time

import z3

from vlib.symex import Ob
from vlib.runner import Job

from src.compilers.base import BaseCompiler
from src.compilers.java import JavaCompiler
from src.compilers.kotlin import KotlinCompiler
from src.compilers.groovy import GroovyCompiler
from src.compilers.scala import ScalaCompiler

COMPILERS = {'java': JavaCompiler, 'kotlin': KotlinCompiler, 'groovy': GroovyCompiler,
             'scala': ScalaCompiler}
EXT = {'java': 'java', 'kotlin': 'kt', 'groovy': 'groovy', 'scala': 'scala'}
MAINFILE = {'java': 'Main.java', 'kotlin': 'program.kt', 'groovy': 'Main.groovy', 'scala': 'program.scala'}


class Unsupported(Exception):
    pass


# ------------------------------------------------------------------ alphabet
def lit(s):
    return z3.Re(s)


ALL = z3.Range(chr(1), chr(126))
NL = lit('\n')
SPACE_CHARS = ' \t\n\r\x0b\x0c'
SP = z3.Union(*[lit(c) for c in SPACE_CHARS])


def minus(a, *bs):
    r = a
    for b in bs:
        r = z3.Intersect(r, z3.Complement(b))
    return r


NONL = minus(ALL, NL)
ANYS = z3.Star(ALL)
LINE = z3.Star(NONL)
DIGIT = z3.Range('0', '9')
LOWER = z3.Range('a', 'z')
UPPER = z3.Range('A', 'Z')
WCH = z3.Union(LOWER, UPPER, DIGIT, lit('_'))


def contains(tok):
    return z3.Concat(ANYS, lit(tok), ANYS)


def cat(*xs):
    xs = [lit(x) if isinstance(x, str) else x for x in xs]
    return xs[0] if len(xs) == 1 else z3.Concat(*xs)


# ---------------------------------------------------------------- translator
def _category(av):
    if av == sc.CATEGORY_DIGIT:
        return DIGIT
    if av == sc.CATEGORY_NOT_DIGIT:
        return minus(ALL, DIGIT)
    if av == sc.CATEGORY_SPACE:
        return SP
    if av == sc.CATEGORY_NOT_SPACE:
        return minus(ALL, SP)
    if av == sc.CATEGORY_WORD:
        return WCH
    if av == sc.CATEGORY_NOT_WORD:
        return minus(ALL, WCH)
    raise Unsupported('category %s' % av)


def _cls(items):
    parts, neg = [], False
    for op, av in items:
        if op == sc.LITERAL:
            parts.append(lit(chr(av)))
        elif op == sc.RANGE:
            parts.append(z3.Range(chr(av[0]), chr(min(av[1], 126))))
        elif op == sc.CATEGORY:
            parts.append(_category(av))
        elif op == sc.NEGATE:
            neg = True
        else:
            raise Unsupported('class item %s' % (op,))
    r = parts[0] if len(parts) == 1 else z3.Union(*parts)
    return minus(ALL, r) if neg else r


def translate(parsed, flags=0):
    """-> (consumed language, trailing look-ahead language or None, lazy_tail)
    lazy_tail is True when the last consuming item is a lazy repeat directly
    followed by the trailing look-ahead (its effective language is then
    restricted by `effective`)."""
    out, la = [], None
    items = list(parsed)
    for idx, (op, av) in enumerate(items):
        if la is not None:
            raise Unsupported('look-ahead that is not at the end of the pattern')
        if op == sc.LITERAL:
            out.append(lit(chr(av)))
        elif op == sc.NOT_LITERAL:
            out.append(minus(ALL, lit(chr(av))))
        elif op == sc.ANY:
            out.append(ALL if flags & re.DOTALL else NONL)
        elif op == sc.IN:
            out.append(_cls(av))
        elif op == sc.SUBPATTERN:
            r, l, _ = translate(av[3], flags)
            out.append(r)
            if l is not None:
                if idx != len(items) - 1:
                    raise Unsupported('look-ahead inside a non-final group')
                la = l
        elif op in (sc.MAX_REPEAT, sc.MIN_REPEAT):
            lo, hi, sub = av
            s, l, _ = translate(sub, flags)
            if l is not None:
                raise Unsupported('look-ahead under a repeat')
            if hi == sc.MAXREPEAT:
                out.append(z3.Star(s) if lo == 0 else (z3.Plus(s) if lo == 1 else
                                                      z3.Concat(*([s] * lo + [z3.Star(s)]))))
            else:
                out.append(z3.Loop(s, lo, hi))
        elif op == sc.ASSERT:
            if av[0] != 1:
                raise Unsupported('look-behind')
            la, l2, _ = translate(av[1], flags)
            if l2 is not None:
                raise Unsupported('nested look-ahead')
        elif op == sc.BRANCH:
            alts = []
            for alt in av[1]:
                r, l, _ = translate(alt, flags)
                if l is not None:
                    raise Unsupported('look-ahead in a branch')
                alts.append(r)
            out.append(z3.Union(*alts))
        else:
            raise Unsupported('opcode %s' % (op,))
    out = out or [lit('')]
    return (out[0] if len(out) == 1 else z3.Concat(*out)), la, False


def parse(rx):
    return sre_parse.parse(rx.pattern, rx.flags)


def top_groups(rx):
    """[(group number or None, parsed sub-sequence)] for the top level of the pattern"""
    out = []
    for op, av in parse(rx):
        if op == sc.SUBPATTERN:
            out.append((av[0], av[3]))
        else:
            out.append((None, [(op, av)]))
    return out


# ------------------------------------------------------------------- solving
class Q:
    """query counter shared by a harness run"""

    def __init__(self):
        self.n = 0
        self.t = 0.0
        self.log = []

    def solve(self, name, *cs, var=None, timeout_ms=60000):
        s = z3.Solver()
        s.set('timeout', timeout_ms)
        s.add(*cs)
        t = time.time()
        r = s.check()
        dt = time.time() - t
        self.n += 1
        self.t += dt
        w = None
        if r == z3.sat and var is not None:
            w = s.model().eval(var, model_completion=True).as_string()
            w = _unescape(w)
        self.log.append((name, str(r), round(dt, 3)))
        if r == z3.unknown:
            raise RuntimeError('solver answered unknown on %s (%s)' % (name, s.reason_unknown()))
        return str(r), w


def _unescape(s):
    # z3 renders non-printable characters as \u{XX}
    return re.sub(r'\\u\{([0-9a-fA-F]+)\}', lambda m: chr(int(m.group(1), 16)), s)


S = z3.String('s')


# ------------------------------------------------------------------- grammars
def path_re(lang):
    """what _run / save_program produce: <tempdir>/src/<package word>/<file>"""
    d = z3.Plus(cat('/', z3.Plus(WCH)))
    return cat(d, '/src/', z3.Plus(LOWER), '/', z3.Plus(WCH), '.' + EXT[lang])


def grammar(lang):
    """dict of unit languages (each WITHOUT its terminator) + tokens assumed absent from free text"""
    P = path_re(lang)
    num = z3.Plus(DIGIT)
    if lang == 'java':
        toks = ['error:', 'java.lang']
        free = minus(LINE, *[contains(t) for t in toks])
        return dict(err=cat(P, ':', num, ': error: ', free),
                    nonerr=free,            # warnings, notes, source quotes, carets, summaries, detail lines
                    term='\n', tokens=toks,
                    crash=cat(LINE, 'java.lang', LINE, '\n', LINE))
    if lang == 'kotlin':
        toks = ['error:', 'org.jetbrains.']
        free = minus(LINE, *[contains(t) for t in toks])
        return dict(err=cat(P, ':', num, ':', num, ': error: ', free),
                    nonerr=free, term='\n', tokens=toks,
                    crash=cat(LINE, 'org.jetbrains.', LINE, '\n', LINE))
    if lang == 'groovy':
        toks = ['groovy:', 'codehaus', 'StackOverflowError']
        body = minus(ANYS, contains('\n\n'), z3.Concat(ANYS, NL), *[contains(t) for t in toks])
        free = minus(ANYS, *[contains(t) for t in toks])
        return dict(err=cat(P, ': ', num, ': ', body),
                    nonerr=free, term='\n\n', tokens=toks,
                    crash=cat(ANYS, 'at org.codehaus.groovy', ANYS))
    if lang == 'scala':
        toks = ['Error: ', 'at dotty', '-']
        kind = z3.Plus(z3.Union(LOWER, UPPER, lit(' ')))
        body = z3.Plus(minus(ALL, lit('-')))
        # scala 3 prints errors with an id (-- [E007] Type Mismatch Error: f.scala:3:4 ---) and without one
        # (-- Error: f.scala:9:6 ---, e.g. override errors)
        ident = z3.Union(cat('[E', z3.Loop(DIGIT, 3, 3), '] ', kind, ' '), lit(''))
        hdr = cat('-- ', ident, 'Error: ', P, ':', num, ':', num, ' ', z3.Plus(lit('-')), '\n')
        free = minus(ANYS, contains('Error: '), contains('at dotty'))
        return dict(err=z3.Concat(hdr, body), hdr=hdr,
                    nonerr=free, term='', tokens=toks,
                    crash=cat(ANYS, 'at dotty', LINE))
    raise KeyError(lang)


# --------------------------------------------------------------- layer 1 lemmas
def _regex_info(lang):
    C = COMPILERS[lang]
    R, LA, _ = translate(parse(C.ERROR_REGEX), C.ERROR_REGEX.flags)
    CR, CLA, _ = translate(parse(C.CRASH_REGEX), C.CRASH_REGEX.flags)
    return C, R, LA, CR, CLA


def h_lemmas(eng, lang):
    """All layer-1 lemmas of one compiler.  Obligation = the solver answered unsat; a sat answer
    is a witness string which is pushed through the real `re` object first."""
    q = Q()
    C, R, LA, CR, CLA = _regex_info(lang)
    g = grammar(lang)
    rx, crx = C.ERROR_REGEX, C.CRASH_REGEX
    P = path_re(lang)
    obs = []

    def real_first(w):
        m = rx.search(w)
        return m

    def lemma(key, claim_unsat_constraints, confirm, info):
        r, w = q.solve(key, *claim_unsat_constraints, var=S)
        if r == 'unsat':
            obs.append(Ob('%s|%s' % (key, lang), True))
            return
        bad, detail = confirm(w)
        if not bad:
            raise RuntimeError('translator/real-re disagreement on %s %s witness %r: %s' % (lang, key, w, detail))
        obs.append(Ob('%s|%s' % (key, lang), False, dict(lemma=info, witness=w, real_re=detail,
                                                         pattern=rx.pattern)))

    term = g['term']
    tail = z3.Concat(LA, ANYS) if LA is not None else ANYS
    # L1 every error unit (followed by its terminator) is matched, anchored at its first character
    lemma('accept-anchored',
          [z3.InRe(S, g['err']), z3.Not(z3.InRe(z3.Concat(S, z3.StringVal(term)), z3.Concat(R, tail)))],
          lambda w: ((lambda m: (m is None or m.start() != 0, 'search -> %r' % (m and (m.start(), m.groups()),)))
                     (rx.search(w + term))),
          'every error unit of the %s grammar followed by its terminator is matched at offset 0' % lang)
    # L2 no non-error text contains a match (look-ahead ignored: over-approximates matching)
    lemma('reject-nonerror',
          [z3.InRe(S, g['nonerr']), z3.InRe(S, z3.Concat(ANYS, R, ANYS))],
          lambda w: ((lambda m: (m is not None, 'search -> %r' % (m and m.groups(),)))(rx.search(w + '\n\n'))),
          'text free of the tokens %s (warnings, notes, quoted source, carets, summaries) is never matched' % g['tokens'])
    # L3 group 1 is the path
    groups = top_groups(rx)
    if lang in ('java', 'kotlin', 'groovy'):
        if not (groups[0][0] == 1 and groups[1][1] == [(sc.LITERAL, ord(':'))]):
            raise Unsupported('pattern shape changed: expected (group1):...')
        G1, l1, _ = translate(groups[0][1], rx.flags)
        REST, lrest, _ = translate([x for _, sub in groups[1:] for x in sub], rx.flags)
        lemma('group1-is-path',
              [z3.InRe(S, g['err']),
               z3.InRe(S, z3.Concat(z3.Intersect(G1, contains(':')), REST, ANYS))],
              lambda w: ((lambda m: (m is None or not re.fullmatch(r'[^:]*', m.group(1)) or m.start() != 0,
                                     'group1 -> %r' % (m and m.group(1),)))(rx.search(w + term))),
              'no anchored match of an error unit has a first group containing a colon (the path is the text '
              'before the first colon)')
        r, w = q.solve('path-has-no-colon', z3.InRe(S, P), z3.InRe(S, contains(':')), var=S)
        obs.append(Ob('path-has-no-colon|%s' % lang, r == 'unsat', dict(witness=w)))
    else:
        hdr = g['hdr']
        lemma('group1-is-path',
              [z3.InRe(S, hdr), z3.Or(z3.InRe(S, cat(ANYS, 'Error: ', ANYS, 'Error: ', ANYS)),
                                      z3.InRe(S, cat(ANYS, '.scala:', ANYS, '.scala:', ANYS)))],
              lambda w: ((lambda m: (m is None or not re.fullmatch(r'(/\w+)+/src/[a-z]+/\w+\.scala', m.group(1)),
                                     'group1 -> %r' % (m and m.group(1),)))(rx.search(w + 'x\n'))),
              'a scala error header contains exactly one "Error: " and one ".scala:" (so the greedy groups have '
              'one way to split it)')
    # L4 locality: the consumed text of a match never crosses the unit boundary
    if lang in ('java', 'kotlin'):
        lemma('match-within-line', [z3.InRe(S, R), z3.InRe(S, contains('\n'))],
              lambda w: ((lambda m: (m is not None and '\n' in m.group(0), 'match -> %r' % (m and m.group(0),)))
                         (rx.search(w + '\n'))),
              'the consumed text of a match contains no newline (findall on a batch = per-line results)')
    elif lang == 'groovy':
        # header part (group 1 + ':') cannot contain a newline; the lazy body stops at the first blank line
        G1, _, _ = translate(groups[0][1], rx.flags)
        lemma('match-within-line', [z3.InRe(S, G1), z3.InRe(S, contains('\n'))],
              lambda w: (True, 'group-1 language contains a newline'),
              'group 1 (the file name) contains no newline')
        last = groups[-1][1]
        ok_shape = (last and last[0][0] == sc.MIN_REPEAT and last[-1][0] == sc.ASSERT)
        obs.append(Ob('lazy-body-then-lookahead|groovy', bool(ok_shape),
                      dict(note='group 2 must be a lazy repeat followed by a look-ahead (stops at the FIRST blank line)')))
    else:
        lemma('match-within-block', [z3.InRe(S, R), z3.InRe(S, cat(ANYS, '\n', ANYS, '-', ANYS, '\n', ANYS))],
              lambda w: ((lambda m: (m is not None and '-' in m.group(2), 'body -> %r' % (m and m.group(2),)))
                         (rx.search(w))),
              'after the header line the consumed body contains no dash (stops before the next "-- " header)')
    # L5 crash classification
    lemma('crash-matched',
          [z3.InRe(S, g['crash']), z3.Not(z3.InRe(S, z3.Concat(ANYS, CR, ANYS)))],
          lambda w: (crx.search(w) is None, 'crash search -> None'),
          'every output carrying the stack-trace token is classified as a crash')
    lemma('diagnostics-not-crash',
          [z3.InRe(S, minus(ANYS, *[contains(t) for t in g['tokens'] if t not in ('error:', 'Error: ', '-', 'groovy:')])),
           z3.InRe(S, z3.Concat(ANYS, CR, ANYS))],
          lambda w: (crx.search(w) is not None, 'crash search matched %r' % w),
          'output free of the stack-trace tokens is never classified as a crash')
    if lang == 'groovy':
        SO, _, _ = translate(parse(C.STACKOVERFLOW_REGEX), 0)
        lemma('stackoverflow-matched',
              [z3.InRe(S, cat(ANYS, 'java.lang.StackOverflowError', ANYS)),
               z3.Not(z3.InRe(S, z3.Concat(ANYS, SO, ANYS)))],
              lambda w: (C.STACKOVERFLOW_REGEX.search(w) is None, 'search -> None'),
              'StackOverflowError outputs are recognised')
    # translation validation: members / non-members of R agree with real re.fullmatch-style matching
    nval = 0
    for k in range(3):
        r, w = q.solve('witness-member', z3.InRe(S, R), z3.Length(S) >= 12 + 9 * k, z3.Length(S) <= 60 + 9 * k, var=S)
        if r == 'sat':
            m = rx.match(w + ('\n\n' if LA is not None else ''))
            if m is None:
                raise RuntimeError('translation validation failed: %r in z3 language but real re rejects (%s)' % (w, lang))
            nval += 1
    r, w = q.solve('witness-err', z3.InRe(S, g['err']), var=S)
    samples = []
    if r == 'sat':
        m = rx.search(w + term)
        samples.append(dict(error_unit=w, real_groups=m and list(m.groups())))
        if m is None:
            raise RuntimeError('translation validation failed on grammar witness %r' % w)
        nval += 1
    r, w = q.solve('witness-nonmember', z3.InRe(S, minus(LINE, z3.Concat(ANYS, R, ANYS))), z3.Length(S) >= 20,
                   z3.InRe(S, cat(ANYS, ':', ANYS)), var=S)
    if r == 'sat':
        if rx.search(w) is not None and LA is None:
            raise RuntimeError('translation validation failed: %r outside z3 language but real re matches' % w)
        nval += 1
    eng.event('lemmas-%s' % lang)
    eng.notes['sample'] = dict(lang=lang, pattern=rx.pattern, crash_pattern=crx.pattern, queries=q.log, samples=samples,
                               translation_validations=nval)
    eng.notes['observe'] = [(n, r) for n, r, _ in q.log]
    eng.stats['solver_calls'] += q.n
    eng.stats['solver_s'] += q.t
    return obs


# ------------------------------------------------------------------ layer 2
def _unit(lang, kind, path, i):
    """concrete text of one unit (with terminator) of the given kind"""
    if lang == 'java':
        if kind == 'error':
            msg = '%d: error: incompatible types: String cannot be converted to int (#%d)' % (10 + i, i)
            return ('%s:%s\n        int x%d = "a";\n                ^\n' % (path, msg, i)), msg
        if kind == 'error2':
            msg = '%d: error: cannot find symbol' % (20 + i)
            return ('%s:%s\n    Foo f;\n    ^\n  symbol:   class Foo\n  location: class Main\n' % (path, msg)), msg
        if kind == 'warning':
            return '%s:%d: warning: [unchecked] unchecked cast\n    (T) x;\n        ^\n' % (path, i), None
        return 'Note: %s uses unchecked or unsafe operations.\n' % path, None
    if lang == 'kotlin':
        if kind in ('error', 'error2'):
            msg = 'type mismatch: inferred type is String but Int was expected (#%d)' % i
            return '%s:%d:%d: error: %s\n    val x: Int = "a"\n                 ^\n' % (path, 3 + i, 7, msg), msg
        if kind == 'warning':
            return "%s:%d:5: warning: variable 'x' is never used\n" % (path, i), None
        return 'warning: some JAR files in the classpath have the Kotlin Runtime library\n', None
    if lang == 'groovy':
        if kind in ('error', 'error2'):
            msg = ' %d: [Static type checking] - Cannot assign value of type java.lang.String to variable of type int\n' \
                  ' @ line %d, column %d.\n       int x = "a"\n       ^' % (i + 1, i + 1, 9)
            return '%s:%s\n\n' % (path, msg), msg
        if kind == 'warning':
            return 'warning: something harmless about %s\n\n' % os.path.basename(os.path.dirname(path)), None
        return 'General note %d\n\n' % i, None
    if lang == 'scala':
        if kind in ('error', 'error2'):
            body = '%d |  val x: Int = "a"\n   |               ^^^\n   |               Found:    ("a" : String)\n' \
                   '   |               Required: Int\n' % (i + 1)
            head = '-- [E007] Type Mismatch Error:' if kind == 'error' else '-- Error:'
            return '%s %s:%d:%d %s\n%s' % (head, path, i + 1, 15, '-' * 20, body), body
        if kind == 'warning':
            return '-- Warning: %s:%d:4 %s\n%d |  def f = 1\n' % (path, i + 1, '-' * 12, i + 1), None
        return '1 warning found\n', None
    raise KeyError(lang)


CRASH_TRAILER = {
    'java': 'An exception has occurred in the compiler (17). Please file a bug.\njava.lang.AssertionError: boom\n'
            '\tat jdk.compiler/com.sun.tools.javac.Main.main(Main.java:1)\n',
    'kotlin': 'exception: org.jetbrains.kotlin.backend.common.BackendException: Backend Internal error\n'
              'File being compiled: x\n',
    'groovy': '>>> a serious error occurred: boom\n>>> stacktrace:\n\tat org.codehaus.groovy.control.X.y(X.java:1)\n',
    'scala': 'exception occurred while typechecking x\n\tat dotty.tools.dotc.Run.compile(Run.scala:1)\n',
}
PREAMBLE = {'java': '', 'kotlin': '',
            'groovy': 'org.codehaus.groovy.control.MultipleCompilationErrorsException: startup failed:\n',
            'scala': ''}
KINDS = ['error', 'error2', 'warning', 'note']


def h_glue(eng, lang, K, F):
    """Real analyze_compiler_output on a batch skeleton: K units, each of a symbolic kind on a
    symbolic file; symbolic filter bit per error; symbolic crash trailer."""
    C = COMPILERS[lang]
    files = ['/tmp/tmpab_%d9x/src/%s/%s' % (f, ['alpha', 'beta', 'gamma'][f], MAINFILE[lang]) for f in range(F)]
    text = PREAMBLE[lang]
    want = {}
    filt = []
    nerr = 0
    seq = []
    for i in range(K):
        kind = KINDS[int(eng.fresh_int(0, len(KINDS) - 1, 'kind'))]
        f = int(eng.fresh_int(0, F - 1, 'file'))
        unit, msg = _unit(lang, kind, files[f], i)
        filtered = False
        if msg is not None:
            filtered = bool(eng.fresh_bool('filtered'))
        if filtered:
            # the user-supplied pattern removes this diagnostic's header line
            filt.append(re.escape(unit.split('\n')[0]))
        elif msg is not None:
            want.setdefault(files[f], []).append(msg)
            nerr += 1
        text += unit
        seq.append((kind, f, filtered))
    if lang == 'groovy':
        text += '%d error%s\n' % (nerr, '' if nerr == 1 else 's')
    elif lang == 'java' and nerr:
        text += '%d error%s\n' % (nerr, '' if nerr == 1 else 's')
    elif lang == 'scala' and nerr:
        text += '%d error%s found\n' % (nerr, '' if nerr == 1 else 's')
    crash = bool(eng.fresh_bool('crash'))
    if crash:
        text += CRASH_TRAILER[lang]
        if bool(eng.fresh_bool('filter_also_matches_the_stack_trace')):
            # a user filter that happens to match lines of the internal stack trace must not hide the crash
            filt += [re.escape(l) for l in CRASH_TRAILER[lang].split('\n') if l.strip()]
            eng.event('filter-matches-trace')
    overflow = False
    if lang == 'groovy' and not crash:
        # groovyc may print a StackOverflowError without compiler frames: a crash only when no diagnostic was printed
        overflow = bool(eng.fresh_bool('stackoverflow_text'))
        if overflow:
            text += 'java.lang.StackOverflowError\n'
            if not nerr:
                crash = True
    comp = C('/tmp/tmpab/src', filt)
    failed, matches = comp.analyze_compiler_output(text)
    case = dict(lang=lang, units=seq, crash=crash, stackoverflow_text=overflow, output=text[:1500],
                returned={k: v for k, v in (failed or {}).items()} if failed is not None else None,
                crash_msg=bool(comp.crash_msg))
    obs = []
    if crash:
        eng.event('crash')
        obs.append(Ob('crash-classified|%s' % lang, comp.crash_msg == text and failed is None, case))
    elif failed is None:
        obs.append(Ob('no-crash|%s' % lang, False, case))
    else:
        got = {k: [m.rstrip('\n') if lang == 'scala' else m for m in v] for k, v in failed.items()}
        wantn = {k: [m.rstrip('\n') if lang == 'scala' else m for m in v] for k, v in want.items()}
        if lang == 'scala':
            # the body group stops at the first dash; compare the part before it
            wantn = {k: [m.split('-')[0].rstrip('\n') for m in v] for k, v in wantn.items()}
            got = {k: [m.split('-')[0].rstrip('\n') for m in v] for k, v in got.items()}
        obs.append(Ob('no-crash|%s' % lang, comp.crash_msg is None, case))
        obs.append(Ob('files-exact|%s' % lang, set(got) == set(wantn), case))
        if lang == 'scala':
            # the body group runs on to the next dash: trailing summary text may follow the diagnostic
            same = set(got) == set(wantn) and all(
                len(got[k]) == len(wantn[k]) and all(g_.startswith(w_) for g_, w_ in zip(got[k], wantn[k]))
                for k in wantn)
        else:
            same = got == wantn
        obs.append(Ob('messages-exact|%s' % lang, same, case))
        if nerr:
            eng.event('errors')
        if any(s[2] for s in seq):
            eng.event('filtered')
        if len(wantn) > 1:
            eng.event('multi-file')
    eng.notes['sample'] = dict(lang=lang, units=seq, crash=crash, files=sorted(want))
    eng.notes['observe'] = sorted((failed or {}).keys())
    return obs


def h_filter_many(eng, lang, nmax):
    """any number of filtered diagnostics: n copies of a message the user filter removes, around one genuine error"""
    C = COMPILERS[lang]
    n = int(eng.fresh_int(0, nmax, 'n_filtered'))
    pos = int(eng.fresh_int(0, 1, 'genuine_first'))
    files = ['/tmp/tmpab_%d9x/src/%s/%s' % (f, ['alpha', 'beta'][f], MAINFILE[lang]) for f in range(2)]
    noisy, _ = _unit(lang, 'error', files[0], 7)
    genuine, gmsg = _unit(lang, 'error2' if lang == 'java' else 'error', files[1], 3)
    units = [noisy] * n
    units.insert(0 if pos else len(units), genuine)
    text = ''.join(units)
    comp = C('/tmp/tmpab/src', [re.escape(noisy.split('\n')[0])])
    failed, _ = comp.analyze_compiler_output(text)
    case = dict(lang=lang, filtered_messages=n, returned=sorted((failed or {}).keys()))
    eng.event('filtered-many')
    eng.notes['sample'] = case
    return [Ob('filtered-messages-disregarded|%s|n=%d' % (lang, n), failed is not None and set(failed) == {files[1]}, case)]


# --------------------------------------------------- real javac (grammar validation)
JAVA_BAD = [
    ('int x = "a";', 'incompatible types'),
    ('Foo f = null;', 'cannot find symbol'),
    ('String s = 1;', 'incompatible types'),
    ('java.util.List<String> l = new java.util.ArrayList<Integer>();', 'incompatible types'),
    ('int y = undefined_name;', 'cannot find symbol'),
]


def h_javac(eng, n):
    """Compile a real batch with javac 17 and check (a) every output line belongs to the
    line grammar used by the lemmas, (b) real analyze_compiler_output returns exactly the
    erroneous files."""
    if shutil.which('javac') is None:
        raise RuntimeError('javac not found')
    root = tempfile.mkdtemp()      # default prefix: what hephaestus' _run uses
    try:
        bad = set()
        words = ['alpha', 'beta', 'gamma', 'delta', 'epsil', 'zetaa']
        for i in range(n):
            d = os.path.join(root, 'src', words[i])
            os.makedirs(d)
            isbad = bool(eng.fresh_bool('bad'))
            body = JAVA_BAD[i % len(JAVA_BAD)][0] if isbad else 'int ok = 1;'
            warn = 'java.util.List raw = new java.util.ArrayList(); raw.add(1);' if i % 2 else ''
            with open(os.path.join(d, 'Main.java'), 'w') as f:
                f.write('package src.%s;\nclass Main {\n  void m() {\n    %s\n    %s\n  }\n}\n' % (words[i], body, warn))
            if isbad:
                bad.add(os.path.join(d, 'Main.java'))
        comp = JavaCompiler(os.path.join(root, 'src'))
        p = subprocess.run(' '.join(comp.get_compiler_cmd()), shell=True, stdout=subprocess.PIPE,
                           stderr=subprocess.STDOUT, timeout=120)
        out = p.stdout.decode()
        failed, _ = comp.analyze_compiler_output(out)
        g = grammar('java')
        offending = []
        for line in out.split('\n'):
            if not line:
                continue
            if re.fullmatch(r'(/\w+)+/src/[a-z]+/\w+\.java:\d+: error: .*', line):
                ok = 'error:' not in line.split(': error: ', 1)[1] and 'java.lang' not in line
            else:
                ok = 'error:' not in line and 'java.lang' not in line
            if not ok:
                offending.append(line)
        case = dict(bad=sorted(os.path.relpath(b, root) for b in bad), output=out[:1500],
                    returned=sorted(os.path.relpath(k, root) for k in (failed or {})))
        eng.event('javac-run')
        if bad:
            eng.event('javac-errors')
        eng.notes['sample'] = case
        return [Ob('javac-lines-in-grammar', not offending, dict(case, offending=offending[:5])),
                Ob('javac-files-exact', failed is not None and set(failed) == bad, case),
                Ob('javac-not-crash', comp.crash_msg is None, case)]
    finally:
        shutil.rmtree(root, ignore_errors=True)


FUNCS = [BaseCompiler.analyze_compiler_output, GroovyCompiler.analyze_compiler_output,
         JavaCompiler.get_filename, JavaCompiler.get_error_msg, KotlinCompiler.get_filename,
         GroovyCompiler.get_filename, ScalaCompiler.get_filename]
OUT = ('message / quoted-source text containing the tokens listed per language (error:, java.lang, .groovy:, at '
       'org.codehaus.groovy, org.jetbrains., Error: , at dotty); units not terminated as the grammar says; the real '
       'output formats of kotlinc/groovyc/scalac (not installed; grammars follow the formats quoted in the regex '
       'comments); filter patterns other than whole-header literals; batches beyond K units x F files in layer 2 '
       '(layer 1 lemmas are length-unbounded); the leftmost-greedy composition of findall over a whole batch is '
       'argued on paper from lemmas accept/reject/locality')


def jobs(tier):
    out = []
    for lang in ('java', 'kotlin', 'groovy', 'scala'):
        out.append(Job('regex-lemmas-%s' % lang, h_lemmas, dict(lang=lang), serial=True, crosscheck_every=0,
                       require_events=['lemmas-%s' % lang], functions=[COMPILERS[lang].analyze_compiler_output],
                       budget_s=900,
                       bounds='strings of unbounded length over ASCII 1..126; live %s ERROR/CRASH patterns '
                              'translated from re._parser' % lang, outside=OUT))
    K, F = (3, 2) if tier == 'quick' else (4, 3)
    for lang in ('java', 'kotlin', 'groovy', 'scala'):
        out.append(Job('glue-%s-K%d-F%d' % (lang, K, F), h_glue, dict(lang=lang, K=K, F=F), split_depth=3,
                       require_events=['crash', 'errors', 'multi-file'] + (['filtered'] if lang in ('java', 'kotlin') else []),
                       functions=FUNCS, budget_s=900,
                       bounds='batches of %d units (error/error+details/warning/note) over %d files, any order and '
                              'repetition, filter bit per error (java, kotlin), crash trailer bit' % (K, F),
                       outside=OUT))
    for lang in ('java', 'kotlin'):
        nm = 12 if tier == 'quick' else 40
        out.append(Job('filter-many-%s' % lang, h_filter_many, dict(lang=lang, nmax=nm), serial=True, functions=FUNCS[:1],
                       require_events=['filtered-many'],
                       bounds='0..%d diagnostics removed by the user filter around one genuine error' % nm, outside=OUT))
    n = 3 if tier == 'quick' else 5
    out.append(Job('real-javac-%dfiles' % n, h_javac, dict(n=n), split_depth=2, crosscheck_every=0,
                   require_events=['javac-run', 'javac-errors'], functions=[JavaCompiler.get_compiler_cmd], budget_s=900,
                   bounds='real javac 17 on every subset of %d files being erroneous (batch compile)' % n, outside=OUT))
    return out


META = dict(
    level='other',
    technique='regex inclusion/emptiness lemmas in z3 (sequence theory) on the live compiler patterns translated '
              'from re._parser; bounded symbolic execution of analyze_compiler_output on batch skeletons; real javac',
    assumptions=['free text of diagnostics does not contain the per-language tokens listed in outside_the_claim',
                 'alphabet ASCII 1..126', 'z3 is the only solver that decides these regex queries here (cvc5 1.0.3 and '
                 'z3 4.8.12 time out); mitigated by witness validation through the real re module on every run'],
)


def mutants():
    out = []
    orig = JavaCompiler.ERROR_REGEX
    out.append(('java regex also matches warnings',
                lambda: setattr(JavaCompiler, 'ERROR_REGEX', re.compile(
                    r'([a-zA-Z0-9\/_]+.java):(\d+:[ ]+(?:error|warning):[ ]+.*)(.*?(?=\n{1,}))')),
                lambda: setattr(JavaCompiler, 'ERROR_REGEX', orig)))
    origk = KotlinCompiler.get_filename
    out.append(('kotlin get_filename returns the message group',
                lambda: setattr(KotlinCompiler, 'get_filename', lambda self, m: m[1]),
                lambda: setattr(KotlinCompiler, 'get_filename', origk)))
    origg = GroovyCompiler.ERROR_REGEX
    out.append(('groovy body greedy instead of lazy',
                lambda: setattr(GroovyCompiler, 'ERROR_REGEX',
                                re.compile(r'([a-zA-Z0-9\\/_]+.groovy):([\s\S]*(?=\n{2,}))')),
                lambda: setattr(GroovyCompiler, 'ERROR_REGEX', origg)))
    return out
