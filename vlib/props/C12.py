"""C12 -- translations are faithful to the program's declarations and annotations.

Family members are translated by the real translators before and after one symbolic
single-attribute perturbation (declared variable type, declared return type, diamond flag
of an instantiation / generic call, finality) at a symbolic position.  Metamorphic
obligations relate the two texts; inventory obligations (every declared name and literal
occurs; brackets and quotes balanced) are checked on the unperturbed text.
"""
import difflib
import re

from src.ir import ast, types as tp

from vlib.symex import Ob
from vlib.runner import Job
from vlib import families as F
from vlib import pipeline as P
from vlib.minityper import declarations_with_namespace
from vlib.props.C11 import FixedRandom, members, fresh

# which omissions a language can express (java prints the inferred type of a variable, java and groovy
# print a return type / `def` regardless of the annotation)
EXPRESSIBLE = {
    'var_type': {'kotlin', 'groovy', 'scala'},
    'ret_type': {'kotlin', 'scala', 'groovy'},      # groovy: local functions only
    'diamond': {'java', 'kotlin', 'groovy', 'scala'},
    'final': {'java', 'kotlin', 'groovy', 'scala'},
    'type_argument': {'java', 'kotlin', 'groovy', 'scala'},
    'override': {'kotlin', 'scala'},        # java and groovy print no override marker
    'open': {'kotlin', 'scala'},            # kotlin: open, scala: final on the members of a class
    'bound': {'java', 'kotlin', 'groovy', 'scala'},
}
KINDS = ['var_type', 'ret_type', 'diamond', 'final', 'type_argument', 'override', 'open', 'bound']


def strip_literals(text):
    text = re.sub(r'"(\\.|[^"\\\n])*"', '""', text)
    text = re.sub(r"'(\\.|[^'\\\n])'", "''", text)
    return text


def balanced(text):
    t = strip_literals(text)
    for o, c in ('()', '{}', '[]'):
        depth = 0
        for ch in t:
            if ch == o:
                depth += 1
            elif ch == c:
                depth -= 1
                if depth < 0:
                    return False
        if depth != 0:
            return False
    return t.count('"') % 2 == 0


def instantiations(p):
    out = []

    def walk(n):
        if isinstance(n, ast.New) and isinstance(n.class_type, tp.ParameterizedType):
            out.append(n)
        if isinstance(n, ast.FunctionCall) and n.type_args:
            out.append(n)
        for c in (n.children() if hasattr(n, 'children') else []):
            walk(c)
    for d in P.top_decls(p):
        walk(d)
    return out


def all_nodes(p):
    out = []
    seen = set()

    def walk(n):
        if id(n) in seen:
            return
        seen.add(id(n))
        out.append(n)
        for c in (n.children() if hasattr(n, 'children') else []):
            walk(c)
    for d in P.top_decls(p):
        walk(d)
    return out


def user_class_names(p, t, acc=None):
    acc = set() if acc is None else acc
    declared = set(p.context.get_classes(ast.GLOBAL_NAMESPACE, glob=True).keys())
    def rec(x, depth=0):
        if x is None or depth > 8:
            return
        if isinstance(x, tp.ParameterizedType):
            if x.name in declared:
                acc.add(x.name)
            for a in x.type_args:
                rec(a, depth + 1)
        elif isinstance(x, tp.WildCardType):
            rec(x.bound, depth + 1)
        elif isinstance(x, tp.SimpleClassifier) and x.name in declared:
            acc.add(x.name)
    rec(t)
    return acc


def lang_token(lang, tok):
    return tok


def changed_lines(a, b):
    d = [l for l in difflib.unified_diff(a.splitlines(), b.splitlines(), lineterm='', n=0)
         if l[:1] in '+-' and l[:3] not in ('+++', '---')]
    return [l[1:] for l in d if l[0] == '-'], [l[1:] for l in d if l[0] == '+']


def has_token(line, name):
    return re.search(r'(?<![A-Za-z0-9_])%s(?![A-Za-z0-9_])' % re.escape(name), line) is not None


def h_fidelity(eng, tier, lang):
    # generated programs are translated to the language they were generated for (a program generated for
    # scala may use default parameter values, which java cannot express)
    names = [n for n in members(tier) if not n.startswith('generated/') or n.startswith('generated/%s/' % lang)]
    pname = names[int(eng.fresh_int(0, len(names) - 1, 'member'))]
    p0 = fresh(pname)
    try:
        with FixedRandom():
            base = F.translate(lang, P.clone(p0))
    except Exception:       # noqa -- not translatable by a fresh translator: no member for this language
        eng.event('not-translatable')
        return [Ob('skip', True)]
    kind = KINDS[int(eng.fresh_int(0, len(KINDS) - 1, 'perturbation'))]
    case = dict(member=pname, language=lang, perturbation=kind)
    obs = []
    # ---------------- inventory on the unperturbed text (once per member: with the first perturbation kind)
    if kind == KINDS[0]:
        missing = []
        for n in all_nodes(p0):
            if isinstance(n, (ast.ClassDeclaration, ast.FunctionDeclaration, ast.FieldDeclaration,
                              ast.ParameterDeclaration, ast.VariableDeclaration)):
                if not has_token(base, n.name):
                    missing.append('%s %s' % (type(n).__name__, n.name))
            elif isinstance(n, ast.StringConstant):
                if n.literal not in base:
                    missing.append('string literal %r' % n.literal)
            elif isinstance(n, (ast.IntegerConstant, ast.RealConstant)) and not isinstance(n, ast.BottomConstant):
                lit = str(n.literal).lstrip('-')
                if lit not in base:
                    missing.append('numeric literal %s' % n.literal)
            elif isinstance(n, ast.ClassDeclaration):
                pass
        for n in all_nodes(p0):
            if isinstance(n, ast.ClassDeclaration):
                for tpar in n.type_parameters:
                    if not has_token(base, tpar.name):
                        missing.append('type parameter %s of %s' % (tpar.name, n.name))
                for s in n.superclasses:
                    if not has_token(base, s.class_type.name):
                        missing.append('supertype %s of %s' % (s.class_type.name, n.name))
        # type parameters of a function occur in the head of its declaration (the text before the parameter list)
        lines = base.splitlines()
        for n in all_nodes(p0):
            if isinstance(n, ast.FunctionDeclaration) and n.type_parameters:
                heads = [l.split('(')[0] for l in lines if has_token(l.split('(')[0], n.name)]
                if not heads:
                    continue
                for tpar in n.type_parameters:
                    if not any(has_token(h, tpar.name) for h in heads):
                        missing.append('type parameter %s of function %s' % (tpar.name, n.name))
                        break
                eng.event('generic-function-checked')
        if lang == 'java':
            # a nested function is printed as  <FunctionN<...>> name = (p1, ..., pn) -> ...: the lambda lists exactly the declared
            # parameter names and the type in front of the name is bracket-balanced
            for n in all_nodes(p0):
                if not isinstance(n, ast.FunctionDeclaration) or not isinstance(n.body, ast.Block):
                    continue
                for inner in n.body.body:
                    if not isinstance(inner, ast.FunctionDeclaration):
                        continue
                    heads = [l for l in lines if (' %s = (' % inner.name) in l and '->' in l]
                    if not heads:
                        continue
                    want = '%s = (%s) ->' % (inner.name, ', '.join(prm.name for prm in inner.params))
                    good = [l for l in heads if want in l and l.split(' %s = (' % inner.name)[0].count('<') ==
                            l.split(' %s = (' % inner.name)[0].count('>')]
                    if not good:
                        missing.append('head of the nested function %s: %s' % (inner.name, heads[0].strip()[:120]))
                    eng.event('nested-function-head-checked')
        obs.append(Ob('inventory|declared-names-and-literals-occur|%s' % lang, not missing, dict(case, missing=missing[:6])))
        obs.append(Ob('inventory|balanced|%s' % lang, balanced(base), case))
        eng.event('inventory')
    # ---------------- one perturbation at a symbolic position, applied in place to the program the
    # translator has already translated (the driver uses one translator per program across all stages)
    q = P.clone(p0)
    reused = F.TRANSLATORS[lang]('src.pkg', {})
    with FixedRandom():
        first = F.translate(lang, q, translator=reused)
    obs.append(Ob('reused-translator-baseline|%s' % lang, first == base, case))
    if kind in ('var_type', 'final'):
        sites = [d for ns, d in declarations_with_namespace(q) if isinstance(d, ast.VariableDeclaration)
                 and (kind == 'final' or d.var_type is not None or d.inferred_type is not None)
                 # groovy declares top-level variables as fields of Main and always prints their type
                 and not (lang == 'groovy' and kind == 'var_type' and ns == ast.GLOBAL_NAMESPACE)]
    elif kind == 'ret_type':
        sites = [(ns, d) for ns, d in declarations_with_namespace(q) if isinstance(d, ast.FunctionDeclaration)
                 and d.body is not None and (d.ret_type is not None or d.inferred_type is not None)]
        if lang == 'groovy':
            # groovy expresses an omitted return type for local functions only (def inner = {...})
            sites = [(ns, d) for ns, d in sites if len(ns) >= 2 and ns[-1][:1].islower() and d.get_type() != p0.bt_factory.get_void_type()]
        sites = [d for _, d in sites]
    elif kind == 'type_argument':
        # an explicit type argument of an instantiation is replaced in place (what TypeOverwriting does)
        sites = [n for n in instantiations(q) if isinstance(n, ast.New) and not n.class_type.can_infer_type_args]
    elif kind == 'bound':
        # the bound of a type parameter of a class or of a function (nested functions are printed as lambdas without type parameters)
        sites = []
        for n in all_nodes(q):
            if isinstance(n, (ast.ClassDeclaration, ast.FunctionDeclaration)):
                # (a bound that is the top type is what some languages print for "no bound": no obligation there)
                sites += [(n, t) for t in n.type_parameters if t.bound is None or t.bound != p0.bt_factory.get_any_type()]
    elif kind in ('override', 'open'):
        # the override / overridability modifier of a member of a class
        sites = [n for n in all_nodes(q) if isinstance(n, ast.FieldDeclaration) or
                 (isinstance(n, ast.FunctionDeclaration) and n.func_type == ast.FunctionDeclaration.CLASS_METHOD
                  and (kind == 'override' or n.body is not None))]
    else:
        # java and groovy never print explicit type arguments of generic method calls
        sites = [n for n in instantiations(q) if isinstance(n, ast.New) or lang in ('kotlin', 'scala')]
    if not sites:
        eng.event('no-site')
        return obs + [Ob('skip', True)]
    d = sites[int(eng.fresh_int(0, len(sites) - 1, 'site'))]
    owner = None
    if kind == 'bound':
        owner, d = d
    name = getattr(d, 'name', None) or getattr(d, 'func', None) or d.class_type.name
    carried_before = None
    ttype = None
    if kind == 'var_type':
        carried_before = d.var_type is not None
        ttype = d.var_type or d.inferred_type
        d.var_type = None if carried_before else d.inferred_type
    elif kind == 'ret_type':
        carried_before = d.ret_type is not None
        ttype = d.ret_type or d.inferred_type
        d.ret_type = None if carried_before else d.inferred_type
    elif kind == 'diamond':
        if isinstance(d, ast.New):
            carried_before = not d.class_type.can_infer_type_args
            d.class_type.can_infer_type_args = carried_before
            ttype = d.class_type
        else:
            carried_before = not d.can_infer_type_args
            d.can_infer_type_args = carried_before
    elif kind == 'bound':
        carried_before = d.bound is not None
        btype = p0.bt_factory.get_string_type()
        if carried_before:
            btype = d.bound
            d.bound = None
        else:
            d.bound = btype
    elif kind == 'override':
        carried_before = bool(d.override)
        d.override = not d.override
    elif kind == 'open':
        if isinstance(d, ast.FieldDeclaration):
            d.can_override = not d.can_override
        else:
            d.is_final = not d.is_final
    elif kind == 'type_argument':
        f = p0.bt_factory
        old = d.class_type.type_args[0]
        new = f.get_string_type() if getattr(old, 'name', None) != f.get_string_type().name else f.get_integer_type()
        d.class_type.type_args[0] = new
    else:
        d.is_final = not d.is_final
    try:
        with FixedRandom():
            other = F.translate(lang, P.clone(q))
            again = F.translate(lang, q, translator=reused)
        obs.append(Ob('reused-translator-sees-the-change|%s|%s' % (kind, lang), again == other,
                      lambda: dict(case, site=name, fresh=changed_lines(base, other)[1][:2],
                                   reused=changed_lines(base, again)[1][:2])))
    except Exception as e:  # noqa
        return obs + [Ob('perturbed-program-translates|%s|%s' % (kind, lang), False, dict(case, site=name, exception=repr(e)))]
    case.update(site=name, carried_before=carried_before)
    if lang not in EXPRESSIBLE[kind]:
        eng.event('not-expressible')
        return obs + [Ob('skip', True)]
    minus, plus = changed_lines(base, other)
    case.update(removed_lines=minus[:3], added_lines=plus[:3])
    obs.append(Ob('toggle-visible|%s|%s' % (kind, lang), base != other, case))
    if base != other:
        if kind == 'bound':
            # the head of the declaring class / function changes and mentions the type parameter; the bound's name is printed iff carried
            ok = bool(minus or plus) and all(has_token(l, name) for l in (minus + plus)[:1])
            obs.append(Ob('toggle-local|%s|%s' % (kind, lang), ok, dict(case, owner=getattr(owner, 'name', None))))
            toks = user_class_names(p0, btype) or ({btype.name} if getattr(btype, 'name', None) and not btype.is_type_var() else set())
            with_text, without_text = (base, other) if carried_before else (other, base)
            for tok in sorted(toks):
                tk = lang_token(lang, tok)
                cw = len(re.findall(r'(?<![A-Za-z0-9_])%s(?![A-Za-z0-9_])' % re.escape(tk), with_text))
                co = len(re.findall(r'(?<![A-Za-z0-9_])%s(?![A-Za-z0-9_])' % re.escape(tk), without_text))
                obs.append(Ob('bound-printed-iff-carried|%s' % lang, cw > co,
                              dict(case, owner=getattr(owner, 'name', None), bound_token=tk, occurrences_with=cw, occurrences_without=co)))
        if kind in ('override', 'open'):
            # exactly the line that declares the member changes; an override marker is printed iff the program carries it
            # (difflib may attach unchanged neighbouring lines, e.g. the closing brace, to the changed block)
            ok = bool(minus) and bool(plus) and has_token(minus[0], name) and has_token(plus[0], name) and minus[1:] == plus[1:]
            obs.append(Ob('toggle-local|%s|%s' % (kind, lang), ok, case))
            if ok and kind == 'override':
                w_line, wo_line = (minus[0], plus[0]) if carried_before else (plus[0], minus[0])
                # (the fields of a class share the header line: count the markers instead of asking for their absence)
                cnt = lambda l: len(re.findall(r'(?<![A-Za-z0-9_])override(?![A-Za-z0-9_])', l))      # noqa: E731
                obs.append(Ob('override-marker-printed-iff-carried|%s' % lang, cnt(w_line) == cnt(wo_line) + 1, case))
        if kind in ('var_type', 'final'):
            # the change starts at the declaration (continuation lines of its initialiser may change too:
            # numeric literals are cast when no type is declared)
            ok = bool(minus or plus) and has_token((minus or plus)[0], name)
            obs.append(Ob('toggle-local|%s|%s' % (kind, lang), ok, case))
        if kind in ('var_type', 'ret_type') and lang == 'kotlin':
            # kotlin: an integer literal of a non-default integral type carries its conversion when no declared type fixes it
            e = d.expr if isinstance(d, ast.VariableDeclaration) else d.body
            tn = getattr(getattr(e, 'integer_type', None), 'name', None)
            if isinstance(e, ast.IntegerConstant) and not isinstance(e, ast.BottomConstant) and tn in ('Long', 'Short', 'Byte'):
                without_text = other if carried_before else base
                wants = ['%s.to%s()' % (e.literal, tn), '(%s).to%s()' % (e.literal, tn)]
                hit = [l for l in without_text.splitlines() if any(x in l for x in wants)]
                obs.append(Ob('literal-keeps-its-type-without-declared-type|%s|%s' % (kind, lang), bool(hit),
                              dict(case, expected=wants[0], lines=(plus if carried_before else minus)[:3])))
                eng.event('wide-literal-checked')
        if kind in ('var_type', 'ret_type', 'diamond') and ttype is not None:
            toks = user_class_names(p0, ttype if kind != 'diamond' else None) if kind != 'diamond' else set()
            if kind == 'diamond' and isinstance(d, ast.New):
                for a in d.class_type.type_args:
                    user_class_names(p0, a, toks)
            with_text, without_text = (base, other) if carried_before else (other, base)
            for tok in sorted(toks):
                cw = len(re.findall(r'(?<![A-Za-z0-9_])%s(?![A-Za-z0-9_])' % re.escape(tok), with_text))
                co = len(re.findall(r'(?<![A-Za-z0-9_])%s(?![A-Za-z0-9_])' % re.escape(tok), without_text))
                obs.append(Ob('type-printed-iff-carried|%s|%s' % (kind, lang), cw > co,
                              dict(case, type_token=tok, occurrences_with=cw, occurrences_without=co)))
                eng.event('type-token-checked')
    eng.event('perturbed:%s' % kind)
    eng.notes['sample'] = case
    eng.notes['observe'] = (len(minus), len(plus))
    return obs


def funcs():
    out = []
    for t in F.TRANSLATORS.values():
        for m in ('visit_var_decl', 'visit_func_decl', 'visit_new', 'visit_func_call', 'visit_class_decl'):
            if hasattr(t, m):
                out.append(getattr(t, m))
    return out


OUT = ('programs outside the families; semantic equivalence of the emitted text (C02); omissions a language cannot express '
       '(java: variable and return types are always printed from the inferred type; groovy: return types) carry no obligation; '
       'type names are checked through user-class name tokens only (built-in names differ per language); modifiers other than '
       'finality of variables; the inventory checks occurrence, not position')


def jobs(tier):
    out = []
    for lang in F.LANGS:
        out.append(Job('fidelity-%s' % lang, h_fidelity, dict(tier=tier, lang=lang), split_depth=2, functions=funcs(),
                       require_events=['inventory', 'perturbed:final', 'perturbed:diamond'] +
                       (['perturbed:var_type'] if lang in EXPRESSIBLE['var_type'] else []) +
                       (['perturbed:override', 'perturbed:open'] if lang in EXPRESSIBLE['override'] else []) +
                       (['wide-literal-checked'] if lang == 'kotlin' else []),
                       budget_s=2400, crosscheck_every=100, setup=lambda t=tier: members(t),
                       bounds='every family member (41 fixtures + %d generated programs per language) x perturbation kind '
                              '{declared variable type, declared return type, diamond flag, finality, type argument, override marker, overridability} x every site of that kind'
                              % (2 if tier == 'quick' else 5), outside=OUT))
    return out


META = dict(
    level='other',
    technique='bounded symbolic exploration of single-attribute perturbations (kind, site = solver integers) of family '
              'programs; metamorphic comparison of the real translators\' texts + inventory obligations',
    assumptions=['token-level text scanners (names, literals, brackets)', 'expressibility table per language (EXPRESSIBLE)'],
)


def mutants():
    from src.translators.kotlin import KotlinTranslator
    out = []
    orig = KotlinTranslator.visit_var_decl

    def bad(self, node):
        saved = node.var_type
        if node.var_type is None and not node.is_final:
            node.var_type = node.inferred_type          # prints the inferred type for erased `var`s
        try:
            return orig(self, node)
        finally:
            node.var_type = saved
    out.append(('kotlin prints the erased type of non-final variables',
                lambda: setattr(KotlinTranslator, 'visit_var_decl', bad),
                lambda: setattr(KotlinTranslator, 'visit_var_decl', orig)))
    return out
