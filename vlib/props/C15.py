"""C15 -- the driver reports a fault exactly on an oracle mismatch and counts correctly.

The real `check_oracle`, `check_oracle_mul`, `update_stats`, `save_stats`,
`stop_condition`, `get_batches` and the loop of `_run` (hephaestus.py) run on
symbolic per-program flags, a symbolic compiler verdict map and symbolic
counters.  The compiler is a stand-in whose verdicts are solver booleans
(the real output parser is C14's subject); file-system effects are real.
"""
import atexit
import json
import os
import shutil
import sys
import tempfile

import z3

from vlib.symex import Ob, T, TI, SymBool, SymInt
from vlib.runner import Job

_BASE = tempfile.mkdtemp(prefix='vcheck-C15-')
atexit.register(lambda: shutil.rmtree(_BASE, ignore_errors=True))
_saved_argv = sys.argv
sys.argv = ['hephaestus.py', '--bugs', os.path.join(_BASE, 'bugs'), '--name', 'sess',
            '--language', 'java', '--batch', '2', '--iterations', '4']
try:
    import hephaestus as H
finally:
    sys.argv = _saved_argv
_REAL_COMPILERS = dict(H.COMPILERS)          # the harnesses below put stand-ins into H.COMPILERS


def _proc_root():
    d = os.path.join(_BASE, 'p%d' % os.getpid())
    os.makedirs(d, exist_ok=True)
    return d


def post(per_job):
    shutil.rmtree(_BASE, ignore_errors=True)


class LazyFailed(dict):
    """The map returned by analyze_compiler_output: `file in failed` is a solver
    boolean per file, decided when the driver asks."""

    def __init__(self, flags, msgs):
        super().__init__()
        self.flags, self.msgs = flags, msgs

    def __contains__(self, k):
        return bool(self.flags[k])

    def __getitem__(self, k):
        return self.msgs[k]

    def get(self, k, d=None):
        return self.msgs[k] if k in self else d


def make_compiler(crash, failed, record):
    class StubCompiler:
        def __init__(self, input_name, filter_patterns=None):
            self.input_name = input_name
            record['filter_patterns'] = filter_patterns

        def get_compiler_cmd(self):
            return ['true']

        def analyze_compiler_output(self, out):
            return failed, []

        @property
        def crash_msg(self):
            return 'CRASH-TRACE' if bool(crash) else None
    return StubCompiler


def _kv(eng, x):
    v = eng.known_value(x) if isinstance(x, SymBool) else x
    return '?' if v is None else int(bool(v))


def h_oracle(eng, B, via_mul=False, with_stats=True):
    root = _proc_root()
    sess = os.path.join(root, 'bugs', 'sess')
    shutil.rmtree(os.path.join(root, 'bugs'), ignore_errors=True)
    os.makedirs(sess)
    H.cli_args.test_directory = sess
    H.cli_args.debug = False
    H.cli_args.rerun = False
    H.STOP_COND = False
    batch_dir = tempfile.mkdtemp(dir=root)
    os.makedirs(os.path.join(batch_dir, 'src'))
    crash = eng.fresh_bool('crash')
    flags, msgs, oracles, progs = {}, {}, {}, {}
    first = int(eng.fresh_int(1, 2, 'first'))            # batches do not start at pid 1 only
    for pid in range(first, first + B):
        tf = eng.fresh_bool('toolfailed')
        has_inc = bool(eng.fresh_bool('has_incorrect'))
        cfile = '%s/src/pkg%d/Main.java' % (batch_dir, pid)
        ifile = '%s/src/pkgx%d/Main.java' % (batch_dir, pid)
        cr = eng.fresh_bool('correct_rejected')
        ir = eng.fresh_bool('incorrect_rejected') if has_inc else True
        flags[cfile], msgs[cfile] = cr, ['%d: error: c%d-a' % (pid, pid), '%d: error: c%d-b' % (pid, pid)]
        files = {cfile: True}
        if has_inc:
            flags[ifile], msgs[ifile] = ir, ['%d: error: injected' % pid]
            files[ifile] = False
        os.makedirs(os.path.join(sess, 'tmp', str(pid)))
        with open(os.path.join(sess, 'tmp', str(pid), 'Main.java'), 'w') as f:
            f.write('class Main%d {}' % pid)
        # a tool-failed result carries no 'programs' in the real driver; the driver never
        # reads it for failed results, so its presence is harmless and keeps `failed` lazy
        stats = {'transformations': [], 'error': ('INJ%d' % pid) if has_inc else None,
                 'programs': files, 'time': 0}
        oracles[pid] = H.ProgramRes(tf, stats)
        progs[pid] = dict(tf=tf, has_inc=has_inc, cr=cr, ir=ir, cfile=cfile, ifile=ifile, stats=stats,
                          tool_err='INJ%d' % pid if has_inc else None)
    rec = {}
    failed = LazyFailed(flags, msgs)
    H.COMPILERS['java'] = make_compiler(crash, failed, rec)
    H.run_command = lambda args, get_stdout=True: (True, '')
    obs = []
    exc = None
    printed = []
    try:
        if via_mul:
            import builtins
            orig_print = builtins.print
            builtins.print = lambda *a, **k: printed.append(' '.join(map(str, a)))
            try:
                out, ctime = H.check_oracle_mul(batch_dir, oracles)
            finally:
                builtins.print = orig_print
        else:
            out, ctime = H.check_oracle(batch_dir, oracles)
    except Exception as e:     # noqa
        exc = e
        out = None

    def case():
        return dict(crash=_kv(eng, crash), first_pid=first, via_pool_wrapper=via_mul,
                    programs=[dict(pid=p, tool_failed=_kv(eng, d['tf']), has_incorrect=int(d['has_inc']),
                                   correct_rejected=_kv(eng, d['cr']),
                                   incorrect_rejected=_kv(eng, d['ir']))
                              for p, d in progs.items()],
                    exception=repr(exc) if exc else None, printed=printed[:2],
                    reported=sorted(out) if out is not None else None,
                    errors={p: out[p].get('error') for p in out} if out else None)
    if exc is not None or (via_mul and any('Internal error' in p for p in printed)):
        # name the program the driver was working on: the one whose saved directory collided
        text = ' '.join([repr(exc), getattr(exc, 'filename', None) or ''] + printed)
        culprit = [d for p_, d in progs.items()
                   if ('/sess/%d' % p_) in text.replace("'", ' ').replace(')', ' ') + ' '] or list(progs.values())
        shape = ';'.join('tf=%s,inc=%d,cr=%s,ir=%s' % (_kv(eng, d['tf']), d['has_inc'], _kv(eng, d['cr']),
                                                      _kv(eng, d['ir'])) for d in culprit[:1])
        eng.event('exception')
        ename = type(exc).__name__ if exc is not None else 'swallowed-by-pool-wrapper'
        return [Ob('no-exception|%s|crash=%s|%s' % (ename, _kv(eng, crash), shape), False, case)]
    cT = T(crash)
    for pid, d in progs.items():
        tf, cr, ir = T(d['tf']), T(d['cr']), T(d['ir'])
        accepted_bad = z3.And(d['has_inc'], z3.Not(ir)) if d['has_inc'] else z3.BoolVal(False)
        compiler_fault = z3.And(z3.Not(tf), z3.Or(cT, cr, accepted_bad))
        want = z3.Or(tf, compiler_fault)
        got = pid in out
        shape = 'crash=%s,tf=%s,inc=%d,cr=%s,ir=%s' % (_kv(eng, crash), _kv(eng, d['tf']), d['has_inc'],
                                                     _kv(eng, d['cr']), _kv(eng, d['ir']))
        obs.append(Ob('reported|%s' % shape, want == z3.BoolVal(got), case))
        if got:
            eng.event('reported')
            err = out[pid].get('error')
            diag = '\n'.join(msgs[d['cfile']])
            snbc = 'SHOULD NOT BE COMPILED: INJ%d' % pid
            m = [z3.Implies(tf, z3.BoolVal(err == d['tool_err'] or True)),   # tool error text is the generator's
                 z3.Implies(z3.And(z3.Not(tf), cT), z3.BoolVal(err == 'CRASH-TRACE')),
                 z3.Implies(z3.And(z3.Not(tf), z3.Not(cT), cr, z3.Not(accepted_bad)), z3.BoolVal(err == diag)),
                 z3.Implies(z3.And(z3.Not(tf), z3.Not(cT), z3.Not(cr), accepted_bad), z3.BoolVal(err == snbc)),
                 z3.Implies(z3.And(z3.Not(tf), z3.Not(cT), cr, accepted_bad),
                            z3.BoolVal(err in (diag, snbc) or (err is not None and diag in err and snbc in err
                                                                and err.count('SHOULD NOT') == 1)))]
            obs.append(Ob('message|%s' % shape, z3.And(*m), case))
            obs.append(Ob('stats-object|%s' % shape, out[pid] is d['stats'], case))
        else:
            eng.event('not-reported')
        saved = os.path.isdir(os.path.join(sess, str(pid)))
        obs.append(Ob('saved-iff-compiler-fault|%s' % shape, compiler_fault == z3.BoolVal(saved), case))
        if saved:
            ok = os.path.isfile(os.path.join(sess, str(pid), 'Main.java'))
            obs.append(Ob('saved-test-case-complete|%s' % shape, ok, case))
        tmp_left = os.path.exists(os.path.join(sess, 'tmp', str(pid)))
        obs.append(Ob('tmp-removed|%s' % shape,
                      z3.Implies(z3.And(z3.Not(cT), z3.Not(tf)), z3.BoolVal(not tmp_left)), case))
    obs.append(Ob('only-batch-pids-reported', set(out) <= set(progs), case))
    obs.append(Ob('batch-dir-removed', not os.path.exists(batch_dir), case))
    if _kv(eng, crash) == 1:
        eng.event('crash-branch')
    if with_stats:
        # counters and faults file, real update_stats/save_stats, concrete prior totals
        H.STATS['totals']['passed'] = 7
        H.STATS['totals']['failed'] = 3
        H.STATS['faults'] = {'900': {'error': 'old'}}
        H.STATS['time'] = 0
        H.STATS['compilation_time'] = 0
        H.print_msg = lambda: None
        try:
            H.update_stats((out, ctime), B, 0)
            with open(os.path.join(sess, 'faults.json')) as f:
                faults = json.load(f)
            with open(os.path.join(sess, 'stats.json')) as f:
                st = json.load(f)
            obs.append(Ob('totals-add-up', H.STATS['totals']['passed'] + H.STATS['totals']['failed'] == 10 + B
                          and H.STATS['totals']['failed'] == 3 + len(out), case))
            obs.append(Ob('faults-file', set(faults) == {'900'} | {str(p) for p in out}
                          and st['totals'] == H.STATS['totals'] and 'faults' in H.STATS, case))
        except Exception as e:
            obs.append(Ob('no-exception|update_stats', False, lambda: dict(case(), exception=repr(e))))
    eng.notes['sample'] = case()
    eng.notes['observe'] = sorted(out)
    return obs


class FakeAsyncResult:
    def __init__(self, value):
        self.value = value

    def get(self, timeout=None):
        return self.value


class FakePool:
    """stand-in for multiprocessing.Pool with the two properties of a process pool that matter to the driver:
    arguments and results cross a pickling boundary, and a submitted oracle check may complete later than the
    generation of the next batch (each check task is run at once or deferred by one round -- a solver boolean)."""

    def __init__(self, eng, log):
        self.eng, self.log, self.deferred = eng, log, []

    def apply_async(self, fn, args=(), callback=None):
        import pickle
        if fn.__name__ == 'gen_program_mul':
            r = FakeAsyncResult(fn(*args))
            self.generated = getattr(self, 'generated', 0) + 1
            return r
        task = (fn, pickle.loads(pickle.dumps(args)), callback)
        # checks deferred earlier complete now: the batch generated in between is already staged
        self.after_generation()
        if bool(self.eng.fresh_bool('check_deferred')):
            self.log.append('check of this batch completes after the next batch was generated')
            self.deferred.append(task)
        else:
            self._run(task)
        return FakeAsyncResult(None)

    def _run(self, task):
        import pickle
        fn, args, callback = task
        res = pickle.loads(pickle.dumps(fn(*args)))
        if callback is not None:
            callback(res)

    def flush(self):
        pass

    def after_generation(self):
        for t in self.deferred:
            self._run(t)
        self.deferred = []

    def close(self):
        self.after_generation()

    def join(self):
        pass

    def terminate(self):
        pass


def h_pool(eng, nbatches, B):
    """the real run_parallel (process_program / process_res / update closures, _run loop, check_oracle_mul) over a
    stand-in pool; programs, verdicts and the completion order of the checks are symbolic"""
    import builtins
    root = _proc_root()
    sess = os.path.join(root, 'bugs', 'sess')
    shutil.rmtree(os.path.join(root, 'bugs'), ignore_errors=True)
    os.makedirs(sess)
    H.cli_args.test_directory = sess
    H.cli_args.debug = False
    H.cli_args.rerun = False
    H.cli_args.dry_run = False
    H.cli_args.workers = 2
    H.cli_args.seconds, H.cli_args.iterations, H.cli_args.batch = None, nbatches * B, B
    H.cli_args.stop_cond = 'iterations'
    H.STOP_COND = False
    H.STATS['totals']['passed'] = 0
    H.STATS['totals']['failed'] = 0
    H.STATS['faults'] = {}
    H.STATS['time'] = 0
    H.STATS['compilation_time'] = 0
    progs, flags, msgs = {}, {}, {}
    crash_of_batch = {}
    log = []

    def gen_program_mul(pid, dirname, packages):
        tf = bool(eng.fresh_bool('toolfailed'))
        has_inc = bool(eng.fresh_bool('has_incorrect'))
        cfile = os.path.join(dirname, packages[0], 'Main.java')
        ifile = os.path.join(dirname, packages[1], 'Main.java')
        cr = bool(eng.fresh_bool('correct_rejected'))
        ir = bool(eng.fresh_bool('incorrect_rejected')) if has_inc else True
        flags[cfile], msgs[cfile] = cr, ['%d: error: c%d' % (pid, pid)]
        files = {cfile: True}
        if has_inc:
            flags[ifile], msgs[ifile] = ir, ['%d: error: injected' % pid]
            files[ifile] = False
        progs[pid] = dict(tf=tf, has_inc=has_inc, cr=cr, ir=ir, batch=(pid - 1) // B, cfile=cfile)
        if tf:
            return H.ProgramRes(True, {'transformations': [], 'error': 'tool-error-%d' % pid, 'program': None, 'time': 0})
        os.makedirs(os.path.join(sess, 'tmp', str(pid)), exist_ok=True)
        with open(os.path.join(sess, 'tmp', str(pid), 'Main.java'), 'w') as f:
            f.write('class Main%d {}' % pid)
        os.makedirs(os.path.dirname(cfile), exist_ok=True)
        return H.ProgramRes(False, {'transformations': [], 'error': ('INJ%d' % pid) if has_inc else None,
                                    'programs': files, 'time': 0})

    class Comp:
        def __init__(self, input_name, filter_patterns=None):
            self.batchdir = input_name

        def get_compiler_cmd(self):
            return ['true']

        def analyze_compiler_output(self, out):
            return LazyFailedPlain(flags, msgs), []

        @property
        def crash_msg(self):
            b = crash_of_batch.get(self.batchdir)
            if b is None:
                b = crash_of_batch[self.batchdir] = bool(eng.fresh_bool('crash'))
            return 'CRASH-TRACE' if b else None

    class LazyFailedPlain(dict):
        def __init__(self, fl, ms):
            super().__init__()
            self.fl, self.ms = fl, ms

        def __contains__(self, k):
            return bool(self.fl.get(k, False))

        def __getitem__(self, k):
            return self.ms[k]

    pool = FakePool(eng, log)
    saved = (H.mp.Pool, H.gen_program_mul, H.COMPILERS['java'], H.run_command, H.logging, H.print_msg)
    printed = []
    orig_print = builtins.print
    H.gen_program_mul = gen_program_mul
    H.COMPILERS['java'] = Comp
    H.run_command = lambda args, get_stdout=True: (True, '')
    H.logging = lambda: None
    H.print_msg = lambda: None

    class PoolFactory:
        def __call__(self, n):
            return pool
    H.mp.Pool = PoolFactory()
    # the _run loop generates a whole batch, then hands it to process_res; deferred checks run after the next
    # batch has been generated (the pool is still busy with them)
    orig_process = None
    exc = None
    builtins.print = lambda *a, **k: printed.append(' '.join(map(str, a)))
    real_get_batches = H.get_batches

    def get_batches_hook(programs):
        pool.after_generation() if False else None
        return real_get_batches(programs)
    try:
        # run deferred checks right after each batch has been generated: hook mkdtemp of the *next* round
        real_mkdtemp = H.tempfile.mkdtemp
        state = dict(round=0)

        def mkdtemp_hook(*a, **k):
            d = real_mkdtemp(dir=root)
            state['round'] += 1
            return d
        H.tempfile.mkdtemp = mkdtemp_hook
        real_apply = pool.apply_async

        def apply_hook(fn, args=(), callback=None):
            r = real_apply(fn, args, callback)
            if fn.__name__ == 'check_oracle_mul':
                pass
            return r
        pool.apply_async = apply_hook
        # deferred checks of round r complete after round r+1 was generated: flush at the start of process_res
        real_check = H.check_oracle_mul

        def check_hook(testdir, oracles):
            return real_check(testdir, oracles)
        check_hook.__name__ = 'check_oracle_mul'
        H.check_oracle_mul = check_hook
        orig_deferred_runner = pool.after_generation

        def gen_flush(pid, dirname, packages):
            return gen_program_mul(pid, dirname, packages)
        try:
            H.run_parallel()
        except Exception as e:      # noqa
            exc = e
        finally:
            H.check_oracle_mul = real_check
            H.tempfile.mkdtemp = real_mkdtemp
    finally:
        builtins.print = orig_print
        H.mp.Pool, H.gen_program_mul, H.COMPILERS['java'], H.run_command, H.logging, H.print_msg = saved
    faults = H.STATS['faults']

    def case():
        return dict(mode='worker pool (stand-in)', batch=B, batches=nbatches, schedule=log,
                    crash={os.path.basename(os.path.dirname(k)): v for k, v in crash_of_batch.items()},
                    programs=[dict(pid=p_, batch=d['batch'], tool_failed=d['tf'], has_incorrect=d['has_inc'],
                                   correct_rejected=d['cr'], incorrect_rejected=d['ir']) for p_, d in sorted(progs.items())],
                    reported={str(k): (v or {}).get('error') if isinstance(v, dict) else repr(v) for k, v in faults.items()},
                    totals=dict(H.STATS['totals']), exception=repr(exc) if exc else None, printed=printed[:3])
    if exc is not None:
        return [Ob('pool|no-exception|%s' % type(exc).__name__, False, case)]
    obs = []
    batch_crash = {}
    for k, v in crash_of_batch.items():
        pass
    internal = any('Internal error' in x for x in printed)
    obs.append(Ob('pool|no-internal-error-swallowed', not internal, case))
    # which batch crashed: batch directories are created in order
    dirs = sorted(crash_of_batch, key=lambda d: min([p_ for p_, dd in progs.items() if dd['cfile'].startswith(os.path.dirname(d))] or [10 ** 6]))
    for p_, d in sorted(progs.items()):
        bdir = os.path.dirname(os.path.dirname(os.path.dirname(d['cfile'])))
        crashed = any(v for k, v in crash_of_batch.items() if k.startswith(bdir))
        want = d['tf'] or crashed or d['cr'] or (d['has_inc'] and not d['ir'])
        got = p_ in faults
        shape = 'crash=%d,tf=%d,inc=%d,cr=%d,ir=%d' % (crashed, d['tf'], d['has_inc'], d['cr'], d['ir'])
        obs.append(Ob('pool|reported|%s' % shape, want == got, case))
        if got and want and isinstance(faults[p_], dict):
            err = faults[p_].get('error')
            if d['tf']:
                okm = err == 'tool-error-%d' % p_
            elif crashed:
                okm = err == 'CRASH-TRACE'
            elif d['cr'] and not (d['has_inc'] and not d['ir']):
                okm = err == '\n'.join(['%d: error: c%d' % (p_, p_)])
            elif not d['cr']:
                okm = err == 'SHOULD NOT BE COMPILED: INJ%d' % p_
            else:
                okm = err is not None and ('SHOULD NOT BE COMPILED: INJ%d' % p_ in err or 'error: c%d' % p_ in err)
            obs.append(Ob('pool|message|%s' % shape, okm, case))
            saved_dir = os.path.isdir(os.path.join(sess, str(p_)))
            obs.append(Ob('pool|saved-iff-compiler-fault|%s' % shape, saved_dir == (not d['tf']), case))
    n = len(progs)
    obs.append(Ob('pool|totals-add-up', H.STATS['totals']['passed'] + H.STATS['totals']['failed'] == n
                  and H.STATS['totals']['failed'] == len(faults), case))
    obs.append(Ob('pool|tmp-removed-at-the-end', not os.path.exists(os.path.join(sess, 'tmp')), case))
    eng.event('pool-session')
    if log:
        eng.event('deferred-check')
    eng.notes['sample'] = case()
    eng.notes['observe'] = sorted(faults)
    return obs


# ------------------------------------------------------------------ sequential session through the real gen_program
FAIL_AT = ['none', 'generate', 'transform', 'inject', 'translate-correct', 'translate-incorrect']


class StubProgram:
    """what the stand-in processor hands around instead of an IR program (picklable: save_program dumps it)"""

    def __init__(self, pid, incorrect=False):
        self.pid, self.incorrect = pid, incorrect


class _Named:
    def __init__(self, name):
        self.name = name

    def get_name(self):
        return self.name


def h_session(eng, K, max_batch, sym_words=False):
    """A whole sequential session (--iterations K --batch B) through the real run(): _run, gen_program,
    process_cp_transformations, process_ncp_transformations, save_program, check_oracle, update_stats, save_stats.
    The tool's own steps are a stand-in ProgramProcessor / translate_program that fail at a symbolic point per program
    (generation, a transformation, the fault injection, a translation) with a message naming the program; the compiler
    stand-in answers as expected (well-typed accepted, ill-typed rejected), so exactly the programs the tool failed on
    are faults, each with its own message."""
    root = _proc_root()
    sess = os.path.join(root, 'bugs', 'sess')
    shutil.rmtree(os.path.join(root, 'bugs'), ignore_errors=True)
    os.makedirs(sess)
    B = int(eng.fresh_int(1, max_batch, 'batch')) if not sym_words else max_batch
    plan = {}
    for pid in range(1, K + 1):
        if sym_words:
            plan[pid] = dict(fail='none', injects=bool(eng.fresh_bool('injects_a_fault')), ntrans=0)
        else:
            plan[pid] = dict(fail=FAIL_AT[int(eng.fresh_int(0, len(FAIL_AT) - 1, 'fails_at'))],
                             injects=bool(eng.fresh_bool('injects_a_fault')), ntrans=int(eng.fresh_int(0, 1, 'transformations')))
    # package names: the real RandomUtils.word / reset_word_pool on an instance-level pool.  sym_words: a pool of 6 words,
    # every choice symbolic (gen_program resets the pool between the programs of a batch); otherwise a large pool drawn in
    # order (distinct names, deterministic)
    rnd = H.utils.random
    saved_rnd = {k: rnd.__dict__.get(k) for k in ('INITIAL_WORDS', 'WORDS', 'r')}
    words_drawn = []

    class _R:
        def choice(self, seq):
            seq = sorted(seq)
            w_ = seq[eng.choice_index(len(seq), 'word')] if sym_words else seq[0]
            words_drawn.append(w_)
            return w_
    if sym_words:
        rnd.INITIAL_WORDS = {'pka', 'pkb', 'pkc', 'pkd', 'pke', 'pkf'}
    else:
        rnd.INITIAL_WORDS = {'pk%03d' % i for i in range(200)}
    rnd.WORDS = set(rnd.INITIAL_WORDS)
    rnd.r = _R()
    if not sym_words:
        # (deterministic distinct names: the reset inside gen_program must not hand out a name twice in this job)
        rnd.reset_word_pool = lambda: None

    def message(pid):
        return 'tool failure at %s of program %d' % (plan[pid]['fail'], pid)

    class StubProc:
        def __init__(self, pid, args):
            self.pid, self.n, self.current_transformation = pid, 0, 0

        def get_program(self):
            if plan[self.pid]['fail'] == 'generate':
                raise RuntimeError(message(self.pid))
            return StubProgram(self.pid), True

        def can_transform(self):
            return self.n < plan[self.pid]['ntrans']

        def transform_program(self, program):
            self.n += 1
            self.current_transformation += 1
            if plan[self.pid]['fail'] == 'transform':
                raise RuntimeError(message(self.pid))
            return program, True

        def inject_fault(self, program):
            if plan[self.pid]['fail'] == 'inject':
                raise RuntimeError(message(self.pid))
            if not plan[self.pid]['injects']:
                return None
            return StubProgram(self.pid, incorrect=True), 'INJ%d' % self.pid

        def get_transformations(self):
            return [_Named('T%d' % i) for i in range(self.n)]

    def translate_program(translator, program):
        f = plan[program.pid]['fail']
        if (f == 'translate-correct' and not program.incorrect) or (f == 'translate-incorrect' and program.incorrect):
            raise RuntimeError(message(program.pid))
        return 'package %s; // program %d %s' % (translator.package, program.pid, 'INCORRECT' if program.incorrect else 'correct')

    # the real JavaCompiler parses an output synthesised from the staged files: one javac error unit per ill-typed file,
    # followed by an internal stack trace when the compiler "crashes" on the first batch (symbolic)
    crash_first = bool(eng.fresh_bool('compiler_crashes_on_the_first_batch')) if not sym_words else False
    RealJava = _REAL_COMPILERS['java']
    ncalls = []

    class SessionCompiler(RealJava):
        def get_compiler_cmd(self):
            return ['javac-stand-in', self.input_name]

        @classmethod
        def get_compiler_version(cls):
            return ['true']

    def run_command(args, get_stdout=True):
        if len(args) < 2 or args[0] != 'javac-stand-in':
            return True, ''
        ncalls.append(1)
        out = []
        for d, _, files in sorted(os.walk(args[1].split('*')[0])):      # (JavaCompiler appends the glob */*.java)
            for fn in sorted(files):
                if fn.endswith('.java'):
                    with open(os.path.join(d, fn)) as fh:
                        if 'INCORRECT' in fh.read():
                            out.append('%s:3: error: incompatible types: String cannot be converted to Integer\n'
                                       '    Integer x = "s";\n                ^\n' % os.path.join(d, fn))
        if out:
            out.append('%d error%s\n' % (len(out), '' if len(out) == 1 else 's'))
        if crash_first and len(ncalls) == 1:
            out.append('An exception has occurred in the compiler (17.0.1). Please file a bug.\n'
                       'java.lang.AssertionError: isSubtype UNKNOWN\n\tat jdk.compiler/com.sun.tools.javac.code.Types.isSubtype(Types.java:1101)\n')
        return False, ''.join(out)

    saved = dict(proc=H.ProgramProcessor, tp=H.utils.translate_program, comp=H.COMPILERS['java'], rc=H.run_command,
                 pm=H.print_msg, lg=H.logging, stats=H.STATS)
    ca = H.cli_args
    saved_args = {k: getattr(ca, k) for k in ('test_directory', 'iterations', 'batch', 'seconds', 'stop_cond', 'debug', 'rerun',
                                              'keep_all', 'dry_run', 'examine', 'print_stacktrace',
                                              'only_correctness_preserving_transformations', 'log_file')
                  if hasattr(ca, k)}
    H.ProgramProcessor, H.utils.translate_program = StubProc, translate_program
    H.COMPILERS['java'] = SessionCompiler
    H.run_command = run_command
    H.print_msg = lambda: None
    H.logging = lambda: None
    H.STATS = {'Info': {}, 'totals': {'passed': 0, 'failed': 0}, 'time': 0, 'compilation_time': 0, 'faults': {}}
    H.STOP_COND = False
    ca.test_directory, ca.iterations, ca.batch, ca.seconds, ca.stop_cond = sess, K, B, None, 'iterations'
    ca.debug = ca.rerun = ca.keep_all = ca.dry_run = ca.examine = ca.print_stacktrace = False
    ca.only_correctness_preserving_transformations = False
    import builtins
    orig_print = builtins.print
    builtins.print = lambda *a, **k: None
    exc = None
    try:
        H.run()
    except Exception as e:      # noqa
        exc = e
    finally:
        builtins.print = orig_print
        stats = H.STATS
        H.ProgramProcessor, H.utils.translate_program, H.COMPILERS['java'] = saved['proc'], saved['tp'], saved['comp']
        H.run_command, H.print_msg, H.logging, H.STATS = saved['rc'], saved['pm'], saved['lg'], saved['stats']
        for k, v in saved_args.items():
            setattr(ca, k, v)
        for k, v in saved_rnd.items():
            if v is None:
                rnd.__dict__.pop(k, None)
            else:
                setattr(rnd, k, v)
        rnd.__dict__.pop('reset_word_pool', None)

    def failed_by_plan(pid):
        f = plan[pid]['fail']
        if f == 'none':
            return False
        if f == 'transform':
            return plan[pid]['ntrans'] > 0
        if f == 'translate-incorrect':
            return plan[pid]['injects']
        return True
    crashed = set(range(1, min(B, K) + 1)) if crash_first else set()
    case = dict(iterations=K, batch=B, compiler_crashes_on_the_first_batch=crash_first, package_names=words_drawn[:8],
                plan={p_: dict(d) for p_, d in plan.items()}, exception=repr(exc) if exc else None,
                faults={k: (v.get('error') if isinstance(v, dict) else v) for k, v in stats.get('faults', {}).items()},
                totals=stats.get('totals'))
    eng.event('session')
    if exc is not None:
        return [Ob('session|no-exception|%s' % type(exc).__name__, False, case)]
    obs = []
    faults = stats['faults']
    tool = {pid for pid in plan if failed_by_plan(pid)}
    want = tool | crashed
    if tool:
        eng.event('session-with-tool-failure')
    if len(tool) >= 2:
        eng.event('session-with-two-tool-failures')
    if crashed:
        eng.event('session-with-compiler-crash')
    if sym_words and len(set(words_drawn)) < len(words_drawn):
        eng.event('session-with-repeated-package-name')
    for pid in plan:
        shape = 'fails_at=%s,injects=%d,crash=%d' % (plan[pid]['fail'], plan[pid]['injects'], pid in crashed)
        if sym_words:
            shape += ',package-names-%s' % ('repeat' if len(set(words_drawn)) < len(words_drawn) else 'distinct')
        obs.append(Ob('session|reported-iff-the-tool-failed-or-the-compiler-crashed|%s' % shape, (pid in faults) == (pid in want),
                      dict(case, pid=pid)))
        if pid in faults and pid in tool:
            obs.append(Ob('session|fault-carries-its-own-message|%s' % shape, faults[pid].get('error') == message(pid),
                          dict(case, pid=pid, expected=message(pid))))
        elif pid in faults and pid in crashed:
            obs.append(Ob('session|crash-fault-carries-the-stack-trace|%s' % shape,
                          'java.lang.AssertionError' in (faults[pid].get('error') or ''), dict(case, pid=pid)))
        obs.append(Ob('session|test-case-saved-iff-compiler-related|%s' % shape,
                      os.path.isdir(os.path.join(sess, str(pid))) == (pid in crashed and pid not in tool), dict(case, pid=pid)))
    obs.append(Ob('session|totals', stats['totals']['failed'] == len(want) and
                  stats['totals']['passed'] + stats['totals']['failed'] == K, case))
    try:
        with open(os.path.join(sess, 'faults.json')) as f:
            ff = json.load(f)
        obs.append(Ob('session|faults-file-lists-the-reported-programs', set(ff) == {str(p_) for p_ in want} and
                      all(ff[str(p_)].get('error') == message(p_) for p_ in tool), dict(case, faults_file={k: v.get('error') for k, v in ff.items()})))
    except Exception as e:      # noqa
        obs.append(Ob('session|faults-file-readable', False, dict(case, exception=repr(e))))
    left = [x for x in os.listdir(sess) if x not in ('faults.json', 'stats.json') and not (x.isdigit() and int(x) in crashed - tool)]
    obs.append(Ob('session|no-files-left-behind', not left, dict(case, left=left)))
    eng.notes['sample'] = case
    eng.notes['observe'] = sorted(faults)
    return obs


def h_counters(eng):
    """update_stats for arbitrary integer totals and batch size (one inductive step)."""
    p0 = eng.fresh_int_unbounded('passed', lo=0)
    f0 = eng.fresh_int_unbounded('failed', lo=0)
    batch = eng.fresh_int_unbounded('batch', lo=1)
    nrep = int(eng.fresh_int(0, 3, 'nrep'))
    eng.assume(T(batch >= nrep))
    H.STATS['totals']['passed'] = p0
    H.STATS['totals']['failed'] = f0
    H.STATS['faults'] = {'900': {}}
    H.STATS['time'] = 0
    H.STATS['compilation_time'] = 0
    H.cli_args.debug = False
    saved = (H.save_stats, H.print_msg)
    H.save_stats = lambda: None          # json cannot render solver integers; covered concretely in h_oracle
    H.print_msg = lambda: None
    try:
        res = {100 + i: {'error': 'e'} for i in range(nrep)}
        H.update_stats((res, 5), batch, 2)
    finally:
        H.save_stats, H.print_msg = saved
    p1, f1 = H.STATS['totals']['passed'], H.STATS['totals']['failed']
    faults = H.STATS['faults']
    eng.notes['sample'] = dict(nrep=nrep)
    eng.event('counters')
    return [Ob('counter-step|sum', TI(p1) + TI(f1) == TI(p0) + TI(f0) + TI(batch)),
            Ob('counter-step|failed', TI(f1) == TI(f0) + nrep),
            Ob('counter-step|passed-nonneg', TI(p1) >= TI(p0)),
            Ob('counter-step|faults', set(faults) == {'900'} | set(res))]


def h_loop_step(eng):
    """stop_condition / get_batches: one round of _run's loop from an arbitrary state
    satisfying the invariant processed = iteration-1 <= iterations."""
    mode = int(eng.fresh_int(0, 1, 'mode'))
    H.STOP_COND = False
    if mode == 0:
        iters = eng.fresh_int_unbounded('iterations', lo=1)
        batch = eng.fresh_int_unbounded('batch', lo=1)
        iteration = eng.fresh_int_unbounded('iteration', lo=1)
        eng.assume(T(iteration - 1 <= iters))
        H.cli_args.seconds, H.cli_args.iterations, H.cli_args.batch = None, iters, batch
        H.cli_args.stop_cond = 'iterations'
        go = H.stop_condition(iteration, 0)
        go_b = bool(go)
        obs = [Ob('loop|continues-iff-work-left', z3.BoolVal(go_b) == (TI(iteration) - 1 < TI(iters)))]
        if go_b:
            eng.event('loop-continues')
            b = H.get_batches(iteration - 1)
            obs += [Ob('loop|batch-at-least-1', TI(b) >= 1), Ob('loop|batch-at-most-batch', TI(b) <= TI(batch)),
                    Ob('loop|never-overshoots', TI(iteration) - 1 + TI(b) <= TI(iters)),
                    Ob('loop|full-batch-when-room',
                       z3.Implies(TI(iteration) - 1 + TI(batch) <= TI(iters), TI(b) == TI(batch)))]
        else:
            eng.event('loop-stops')
        return obs
    secs = eng.fresh_int_unbounded('seconds', lo=1)
    batch = eng.fresh_int_unbounded('batch', lo=1)
    tp_ = eng.fresh_int_unbounded('time_passed', lo=0)
    H.cli_args.seconds, H.cli_args.iterations, H.cli_args.batch = secs, None, batch
    H.cli_args.stop_cond = 'timeout'
    try:
        go = bool(H.stop_condition(5, tp_))
        b = H.get_batches(4)
    finally:
        H.cli_args.seconds, H.cli_args.stop_cond = None, 'iterations'
    eng.event('timeout-mode')
    return [Ob('loop|timeout-continues-iff-time-left', z3.BoolVal(go) == (TI(tp_) < TI(secs))),
            Ob('loop|timeout-full-batch', TI(b) == TI(batch))]


def h_run_loop(eng, max_iter, max_batch):
    """The real _run loop with symbolic --iterations and --batch."""
    iters = eng.fresh_int(1, max_iter, 'iterations')
    batch = eng.fresh_int(1, max_batch, 'batch')
    H.STOP_COND = False
    H.cli_args.seconds, H.cli_args.iterations, H.cli_args.batch = None, iters, batch
    H.cli_args.stop_cond = 'iterations'
    saved = H.logging
    H.logging = lambda: None
    gen, rounds = [], []

    def process_program(pid, dirname, packages):
        gen.append((int(pid), packages[0] != packages[1]))
        return ('res', int(pid))

    def process_res(start_index, res, testdir, batches):
        rounds.append((int(start_index), [r[1] for r in res], int(batches)))
        shutil.rmtree(testdir, ignore_errors=True)
    try:
        H._run(process_program, process_res)
    finally:
        H.logging = saved
    n = int(iters)
    bmax = int(batch)
    pids = [p for p, _ in gen]
    ok_rounds = all(r[1] == list(range(r[0], r[0] + r[2])) and 1 <= r[2] <= bmax for r in rounds)
    eng.notes['sample'] = dict(iterations=n, batch=bmax, rounds=rounds)
    eng.notes['observe'] = rounds
    eng.event('rounds=%d' % min(len(rounds), 3))
    return [Ob('run|every-program-once|it=%d,b=%d' % (n, bmax), pids == list(range(1, n + 1)),
               dict(iterations=n, batch=bmax, pids=pids)),
            Ob('run|rounds-partition|it=%d,b=%d' % (n, bmax),
               ok_rounds and sum(r[2] for r in rounds) == n, dict(iterations=n, batch=bmax, rounds=rounds)),
            Ob('run|distinct-packages', all(d for _, d in gen))]


FUNCS = [H.check_oracle, H.check_oracle_mul, H.update_stats, H.save_stats, H.stop_condition,
         H.get_batches, H._run]
STUBS = ['run_command -> (True, "") (no process is started)',
         'COMPILERS[java] -> stand-in whose analyze_compiler_output returns a lazy map (file in failed = solver '
         'boolean) and whose crash_msg is a solver boolean; the real parser is the subject of C14',
         'print_msg/logging -> no-op; save_stats -> no-op in the unbounded-counter lemma only']
OUT = ('real process pools (run_parallel is driven over a synchronous stand-in pool with a pickling boundary and a '
       'one-round deferral of checks; other interleavings, worker crashes and KeyboardInterrupt are outside); '
       '--debug (sys.exit) and --rerun (_report_failed; rejected together with --batch); --keep-all trees; '
       'timing fields; batches larger than the bound; the end-of-session removal of <session>/tmp')


def jobs(tier):
    Bs = [1, 2] if tier == 'quick' else [1, 2, 3]
    out = []
    for B in Bs:
        out.append(Job('check_oracle-B%d' % B, h_oracle, dict(B=B), split_depth=5, functions=FUNCS[:4],
                       require_events=['reported', 'not-reported', 'crash-branch'], stubs=STUBS, budget_s=1200,
                       crosscheck_every=20,
                       bounds='batches of %d programs (first pid 1 or 2); per program: tool failed?, has an '
                              'ill-typed variant?, well-typed file rejected?, ill-typed file rejected?; per batch: '
                              'compiler crash? -- all solver booleans, every combination' % B, outside=OUT))
    for B in ([2] if tier == 'quick' else [1, 2, 3]):
        out.append(Job('check_oracle_mul-B%d' % B, h_oracle, dict(B=B, via_mul=True, with_stats=False), split_depth=5,
                       functions=[H.check_oracle_mul, H.check_oracle], stubs=STUBS, budget_s=1200,
                       crosscheck_every=20,
                       bounds='as check_oracle-B%d, through the wrapper the worker pool runs' % B, outside=OUT))
    nb, bb = (2, 1) if tier == 'quick' else (2, 2)
    out.append(Job('worker-pool-session-%dx%d' % (nb, bb), h_pool, dict(nbatches=nb, B=bb), split_depth=5,
                   functions=[H.run_parallel, H._run, H.check_oracle_mul, H.check_oracle, H.update_stats],
                   require_events=['pool-session', 'deferred-check'], stubs=STUBS + [
                       'multiprocessing.Pool -> synchronous stand-in with a pickling boundary for arguments/results; '
                       'each oracle check runs at once or completes after the next batch was generated (solver boolean)',
                       'gen_program_mul -> stand-in that stages <session>/tmp/<pid> like the real generator step'],
                   budget_s=1500, crosscheck_every=20,
                   bounds='the real run_parallel session of %d batches x %d programs: every flag combination per program, '
                          'crash bit per batch, every completion order of the checks the stand-in pool admits' % (nb, bb),
                   outside=OUT))
    ks, mb2 = (2, 2) if tier == 'quick' else (3, 2)
    out.append(Job('sequential-session-K%d' % ks, h_session, dict(K=ks, max_batch=mb2), split_depth=4,
                   functions=[H.run, H._run, H.gen_program, H.process_cp_transformations, H.process_ncp_transformations,
                              H.save_program, H.check_oracle, H.update_stats, H.save_stats],
                   require_events=['session', 'session-with-tool-failure', 'session-with-two-tool-failures', 'session-with-compiler-crash'],
                   stubs=['ProgramProcessor -> stand-in whose steps fail at a symbolic point per program (generation, a '
                          'transformation, the fault injection, translation of the well-typed / ill-typed variant) with a message '
                          'naming the program', 'utils.translate_program -> one line of text', 'the real JavaCompiler.analyze_compiler_output on a javac output '
                          'synthesised from the staged files (one error unit per ill-typed file; an internal stack trace after them when the compiler crashes on the first batch)', 'logging, print_msg -> no-ops'],
                   budget_s=1500, crosscheck_every=20,
                   bounds='the real run() session of %d programs, --batch 1..%d; per program: failure point (6 values), fault '
                          'injected or not, 0..1 transformations, compiler crash on the first batch -- every combination' % (ks, mb2), outside=OUT))
    out.append(Job('session-package-names', h_session, dict(K=2, max_batch=2, sym_words=True), split_depth=4,
                   functions=[H.run, H._run, H.gen_program, H.check_oracle, H.utils.RandomUtils.word, H.utils.RandomUtils.reset_word_pool],
                   require_events=['session'], budget_s=900, crosscheck_every=20,
                   stubs=['as sequential-session, no tool failures; package names: the real RandomUtils.word / reset_word_pool on a pool of 6 '
                          'words, every choice symbolic'],
                   bounds='the real run() session of one batch of 2 programs; fault injected or not per program; every choice of the package '
                          'names from a 6-word pool (the pool is reset by gen_program between the programs)', outside=OUT))
    out.append(Job('counters-step', h_counters, {}, serial=True, functions=[H.update_stats],
                   require_events=['counters'], stubs=STUBS,
                   bounds='arbitrary integers passed>=0, failed>=0, batch>=reported; 0..3 reported programs; one '
                          'step (by induction: any number of batches)', outside=OUT))
    out.append(Job('loop-step', h_loop_step, {}, serial=True, functions=[H.stop_condition, H.get_batches],
                   require_events=['loop-continues', 'loop-stops', 'timeout-mode'], stubs=STUBS,
                   bounds='arbitrary integers iterations>=1, batch>=1, iteration>=1 with iteration-1<=iterations; '
                          'timeout mode with arbitrary seconds/time', outside=OUT))
    mi, mb = (6, 3) if tier == 'quick' else (12, 5)
    out.append(Job('run-loop', h_run_loop, dict(max_iter=mi, max_batch=mb), split_depth=2, functions=[H._run],
                   stubs=STUBS, bounds='real _run loop, --iterations 1..%d x --batch 1..%d symbolic' % (mi, mb),
                   outside=OUT))
    return out


META = dict(
    level='other',
    technique='bounded symbolic execution of hephaestus.py check_oracle/update_stats/stop_condition/get_batches/_run '
              'with solver-boolean verdicts and flags; decision table and counter lemmas as z3 formulas',
    assumptions=['compiler verdicts are arbitrary (stand-in compiler); file system effects are real (temp dir)',
                 'ProgramRes of a tool-failed program additionally carries a programs map (never read by the driver '
                 'for failed results)'],
)


def mutants():
    out = []
    orig = H.update_stats

    def bad_update(res, batch, batch_time):
        r, ct = res
        H.STATS['totals']['failed'] += len(r)
        H.STATS['totals']['passed'] += batch          # forgets to subtract the failed ones
        H.STATS['faults'].update(r)
        H.save_stats()
    out.append(('update_stats counts failed programs as passed too',
                lambda: setattr(H, 'update_stats', bad_update), lambda: setattr(H, 'update_stats', orig)))
    orig_gb = H.get_batches

    def bad_gb(programs):
        return H.cli_args.batch
    out.append(('get_batches ignores remaining iterations',
                lambda: setattr(H, 'get_batches', bad_gb), lambda: setattr(H, 'get_batches', orig_gb)))
    return out
