"""C06 -- the subtyping judgement is sound, and exact on concrete class types.

(I) Rule lemmas, unbounded in type depth (assume-guarantee): every is_subtype
    method and _is_type_arg_contained run on Leaf types whose sub-judgements
    are solver atoms; the obligation `result => D` (and `result <=> D` on the
    exactness class) is decided for all truth values of the sub-judgements
    under the induction hypothesis on the atoms.
(II) Bounded end-to-end: the real code on every small class table (symbolic
    selectors) against the declarative relation of vlib/ref.py, plus
    reference-free reflexivity/transitivity.
"""
import itertools

import z3

from src.ir import types as tp, kotlin_types as kt, java_types as jt

from vlib.symex import Ob, T, SymBool
from vlib.runner import Job
from vlib.atoms import Atoms, Leaf
from vlib import univ
from vlib.ref import World, show, INV, CO, CONTRA

KN = ['plain', 'out', 'in', 'star']
VN = ['inv', 'co', 'contra']


def mkarg(kind, leaf):
    if kind == 0:
        return leaf
    if kind == 1:
        return tp.WildCardType(leaf, tp.Covariant)
    if kind == 2:
        return tp.WildCardType(leaf, tp.Contravariant)
    return tp.WildCardType()


def interval(kind, leaf, pv):
    if kind == 3:
        return (None, None)
    if kind == 0:
        return {0: (leaf, leaf), 1: (None, leaf), 2: (leaf, None)}[pv]
    if kind == 1:
        return (None, None) if pv == 2 else (None, leaf)
    return (None, None) if pv == 1 else (leaf, None)


def decl_contained(at, ka, a, kb, b, pv):
    """interval semantics over decl atoms; leaves are neither top nor bottom"""
    if ka == 0 and kb == 0 and pv == 0:
        return at.eqt(a, b)
    (la, ha), (lb, hb) = interval(ka, a, pv), interval(kb, b, pv)
    lo = z3.BoolVal(True) if lb is None else (z3.BoolVal(False) if la is None else at.d(lb, la))
    hi = z3.BoolVal(True) if hb is None else (z3.BoolVal(False) if ha is None else at.d(ha, hb))
    return z3.And(lo, hi)


def conflicting(kind, pv):
    return (kind == 1 and pv == 2) or (kind == 2 and pv == 1)


def h_containment(eng, exact):
    at = Atoms(eng, exact=exact)
    a, b = Leaf('a', at), Leaf('b', at)
    ka = int(eng.fresh_int(0, 3, 'ka'))
    kb = int(eng.fresh_int(0, 3, 'kb'))
    pv = int(eng.fresh_int(0, 2, 'pv'))
    in_class = not (ka == 3 or kb == 3 or conflicting(ka, pv) or conflicting(kb, pv))
    if exact and not in_class:
        return [Ob('skip', True)]
    p = tp.TypeParameter('X', univ.VAR[pv])
    got = tp._is_type_arg_contained(mkarg(ka, a), mkarg(kb, b), p)
    at.close([a, b])
    D = decl_contained(at, ka, a, kb, b, pv)
    g = T(got)
    if not isinstance(got, (bool, SymBool)):
        return [Ob('containment:returns-bool', False, dict(got=repr(got)))]
    case = dict(rule='_is_type_arg_contained', param=VN[pv], arg=KN[ka], other=KN[kb],
                answer=str(z3.simplify(g)), declarative=str(z3.simplify(D)))
    eng.event('containment:%s' % ('pos' if not z3.is_false(z3.simplify(g)) else 'neg'))
    eng.notes['sample'] = case
    key = 'containment:param=%s,arg=%s,other=%s' % (VN[pv], KN[ka], KN[kb])
    if exact:
        return [Ob('exact|' + key, g == D, case)]
    return [Ob('sound|' + key, z3.Implies(g, D), case)]


def h_parameterized(eng, exact, arity, nsup):
    """ParameterizedType.is_subtype: same-constructor target, arbitrary projections,
    optional opaque declared supertypes."""
    at = Atoms(eng, exact=exact)
    sups = [Leaf('u%d' % j, at) for j in range(nsup)]
    pvs = [int(eng.fresh_int(0, 2, 'pv')) for _ in range(arity)]
    params = [tp.TypeParameter('X%d' % i, univ.VAR[pvs[i]]) for i in range(arity)]
    G = tp.TypeConstructor('G', params, list(sups))
    kas = [int(eng.fresh_int(0, 3, 'ka')) for _ in range(arity)]
    kbs = [int(eng.fresh_int(0, 3, 'kb')) for _ in range(arity)]
    ok_class = not any(k == 3 for k in kas + kbs) and not any(
        conflicting(kas[i], pvs[i]) or conflicting(kbs[i], pvs[i]) for i in range(arity))
    if exact and not ok_class:
        return [Ob('skip', True)]
    la = [Leaf('a%d' % i, at) for i in range(arity)]
    lb = [Leaf('b%d' % i, at) for i in range(arity)]
    S = G.new([mkarg(kas[i], la[i]) for i in range(arity)])
    Tt = G.new([mkarg(kbs[i], lb[i]) for i in range(arity)])
    got = S.is_subtype(Tt)
    at.close(la + lb)
    same = z3.And(*[z3.And(kas[i] == kbs[i], at.eqt(la[i], lb[i]) if kas[i] != 3 else True)
                    for i in range(arity)])
    cont = z3.And(*[decl_contained(at, kas[i], la[i], kbs[i], lb[i], pvs[i]) for i in range(arity)])
    nominal = z3.Or(*[at.d(u, Tt) for u in sups]) if sups else z3.BoolVal(False)
    D = z3.Or(same, cont, nominal)
    g = T(got)
    case = dict(rule='ParameterizedType.is_subtype', params=[VN[v] for v in pvs],
                S=[KN[k] for k in kas], T=[KN[k] for k in kbs], declared_supertypes=nsup,
                answer=str(z3.simplify(g))[:300])
    eng.notes['sample'] = case
    eng.event('ptype:%s' % ('pos' if not z3.is_false(z3.simplify(g)) else 'neg'))
    key = 'ptype:params=%s,S=%s,T=%s,sup=%d' % ('/'.join(VN[v] for v in pvs), '/'.join(KN[k] for k in kas),
                                               '/'.join(KN[k] for k in kbs), nsup)
    if exact:
        return [Ob('exact|' + key, g == D, case)]
    return [Ob('sound|' + key, z3.Implies(g, D), case)]


def h_nominal(eng, exact, shape):
    """nominal rules: SimpleClassifier / ParameterizedType / Builtin against an opaque target"""
    at = Atoms(eng, exact=exact)
    t = Leaf('t', at)
    n = int(eng.fresh_int(0, 2, 'nsup'))
    sups = [Leaf('u%d' % j, at) for j in range(n)]
    if shape == 'simple':
        S = tp.SimpleClassifier('S', list(sups))
    elif shape == 'simple-chain':
        mid = tp.SimpleClassifier('M', list(sups))
        S = tp.SimpleClassifier('S', [mid])
    else:
        G = tp.TypeConstructor('G', [tp.TypeParameter('X')], list(sups))
        S = G.new([Leaf('a', at)])
    got = S.is_subtype(t)
    at.close(sups + [t])
    D = z3.Or(*[at.d(u, t) for u in sups]) if sups else z3.BoolVal(False)
    g = T(got)
    case = dict(rule='%s.is_subtype(nominal)' % shape, supertypes=n, answer=str(z3.simplify(g)))
    eng.notes['sample'] = case
    eng.event('nominal:%s' % ('pos' if not z3.is_false(z3.simplify(g)) else 'neg'))
    key = 'nominal:%s,sup=%d' % (shape, n)
    return [Ob(('exact|' if exact else 'sound|') + key, (g == D) if exact else z3.Implies(g, D), case)]


def h_small_rules(eng):
    """WildCardType.is_subtype, TypeParameter.is_subtype, Nothing, is_assignable default"""
    at = Atoms(eng)
    a, b = Leaf('a', at), Leaf('b', at)
    which = int(eng.fresh_int(0, 3, 'rule'))
    obs = []
    if which == 0:
        ka = int(eng.fresh_int(1, 3, 'ka'))
        kb = int(eng.fresh_int(1, 3, 'kb'))
        got = mkarg(ka, a).is_subtype(mkarg(kb, b))
        at.close([a, b])
        D = decl_contained(at, ka, a, kb, b, 0)
        obs.append(Ob('sound|wildcard:%s<=%s' % (KN[ka], KN[kb]), z3.Implies(T(got), D),
                      dict(rule='WildCardType.is_subtype', S=KN[ka], T=KN[kb])))
        got2 = mkarg(ka, a).is_subtype(b)
        obs.append(Ob('sound|wildcard-vs-plain:%s' % KN[ka], z3.Not(T(got2)),
                      dict(rule='WildCardType.is_subtype(non-wildcard)')))
    elif which == 1:
        hasb = bool(eng.fresh_bool('bound'))
        p = tp.TypeParameter('X', bound=a if hasb else None)
        got = p.is_subtype(b)
        at.close([a, b])
        D = at.d(a, b) if hasb else z3.BoolVal(False)
        obs.append(Ob('sound|typeparam:bound=%d' % hasb, z3.Implies(T(got), D),
                      dict(rule='TypeParameter.is_subtype', bounded=hasb)))
    elif which == 2:
        obs.append(Ob('bottom|Nothing', T(tp.Nothing.is_subtype(a)) == z3.BoolVal(True), dict(rule='Nothing')))
        obs.append(Ob('bottom|kotlin.Nothing', T(kt.NothingType().is_subtype(a)) == z3.BoolVal(True),
                      dict(rule='kotlin Nothing')))
    else:
        got = tp.Type.is_assignable(a, b)
        obs.append(Ob('sound|is_assignable-default', z3.Implies(T(got), at.d(a, b)), dict(rule='Type.is_assignable')))
    eng.event('small-rule-%d' % which)
    eng.notes['sample'] = dict(rule=which)
    return obs


# ------------------------------------------------------------------ part II
SUP_KINDS = ['any', 'cls0', 'G<Y>', 'G<cls>', 'G<G<Y>>']


def gen_table(eng, nmax, two_param=False, fixed_n=None, vary_bounds=True, fix=None):
    fix = fix or {}

    def sel(name, lo, hi):
        if name in fix:
            return fix[name]
        return int(eng.fresh_int(lo, hi, name))
    n = fixed_n if fixed_n is not None else int(eng.fresh_int(1, nmax, 'n'))
    if 'ext' in fix:
        ext = list(fix['ext'])[:univ.n_ext_bits(n)]
    else:
        ext = [int(bool(eng.fresh_bool('ext'))) for _ in range(univ.n_ext_bits(n))]
    gv = sel('gvar', 0, 2)
    gb = sel('gbound', 0, 1) if vary_bounds else 0
    gs = [dict(name='G', params=[('X', gv, ('cls', 0) if gb else None)], sup=('cls', 0) if fix.get('gsup') else ('any',))]
    if not two_param:
        hv = sel('hvar', 0, 2)
        hb = sel('hbound', 0, 1) if vary_bounds else 0
        hs = sel('hsup', 0, len(SUP_KINDS) - 1)
        sup = {0: ('any',), 1: ('cls', 0), 2: ('gen', 0, [('var', 'Y')]),
               3: ('gen', 0, [('cls', n - 1)]), 4: ('gen', 0, [('gen', 0, [('var', 'Y')])])}[hs]
        gs.append(dict(name='H', params=[('Y', hv, ('cls', 0) if hb else None)], sup=sup))
    if two_param:
        v1 = sel('p1', 0, 2)
        v2 = sel('p2', 0, 2)
        gs.append(dict(name='K', params=[('U', v1, None), ('V', v2, None)], sup=('any',)))
    table = univ.build_table(n, ext, gs)
    return table


def table_ok(table, w):
    """declared supertypes respect the bounds of the classes they instantiate"""
    for g in table.gens:
        for s in g.supertypes:
            if not w.within_bounds(w.snap(s)):
                return False
    return True


def h_tables(eng, nmax, depth, two_param, builtins, trans, fixed_n=None):
    table = gen_table(eng, nmax, two_param, fixed_n)
    w = table.world()
    if not table_ok(table, w):
        eng.event('table-skipped-illformed')
        return [Ob('skip', True)]
    types = univ.ground_types(table, depth, w, wf=True, builtins=builtins)
    terms = [w.snap(t) for t in types]
    exact_cls = [w.in_exact_class(x) for x in terms]
    n = len(types)
    M = [[False] * n for _ in range(n)]
    obs = []
    npos = nexact = 0
    bad_sound = bad_exact = None
    for i, s in enumerate(types):
        for j, t in enumerate(types):
            r = s.is_subtype(t)
            if not isinstance(r, bool):
                r = bool(r)
            M[i][j] = r
            d = w.sub(terms[i], terms[j])
            if r:
                npos += 1
                if not d and bad_sound is None:
                    bad_sound = (i, j)
            if exact_cls[i] and exact_cls[j]:
                nexact += 1
                if r != d and bad_exact is None:
                    bad_exact = (i, j)
    desc = table.desc

    def case(ij, what):
        i, j = ij
        return dict(kind=what, S=show(terms[i]), T=show(terms[j]), implementation=M[i][j],
                    declarative=w.sub(terms[i], terms[j]), table=desc,
                    generic_classes=[str(g) for g in table.gens], classes=[str(c) for c in table.classes])
    if bad_sound:
        i, j = bad_sound
        obs.append(Ob('unsound|%s' % _shape(w, terms[i], terms[j]), False, case(bad_sound, 'unsound positive answer')))
    if bad_exact:
        i, j = bad_exact
        obs.append(Ob('inexact|%s' % _shape(w, terms[i], terms[j]), False, case(bad_exact, 'answer differs on exactness class')))
    # bottom below everything
    for t in types:
        if not (tp.Nothing.is_subtype(t) and kt.NothingType().is_subtype(t)):
            obs.append(Ob('bottom', False, dict(T=str(t))))
            break
    # reference-free: reflexive and transitive on the exactness class
    ex = [i for i in range(n) if exact_cls[i]]
    for i in ex:
        if not M[i][i]:
            obs.append(Ob('reflexive|%s' % _shape(w, terms[i], terms[i]), False, dict(T=show(terms[i]), table=desc)))
            break
    if trans and w.variance_wf():
        eng.event('transitivity-checked')
        succ = {i: [j for j in ex if M[i][j]] for i in ex}
        found = None
        for i in ex:
            for j in succ[i]:
                for k in succ[j]:
                    if not M[i][k]:
                        found = (i, j, k)
                        break
                if found:
                    break
            if found:
                break
        if found:
            i, j, k = found
            obs.append(Ob('transitive|%s' % _shape(w, terms[i], terms[k]), False,
                          dict(S=show(terms[i]), M=show(terms[j]), T=show(terms[k]), table=desc,
                               generic_classes=[str(g) for g in table.gens])))
    eng.event('pairs')
    eng.notes['pairs'] = n * n
    if npos > n:
        eng.event('nontrivial-positives')
    if nexact:
        eng.event('exactness-pairs')
    eng.notes['sample'] = dict(table=desc, types=n, pairs=n * n, positive=npos, exact_pairs=nexact)
    eng.notes['observe'] = (n, npos)
    eng.stats['pairs'] = eng.stats.get('pairs', 0) + n * n
    obs.append(Ob('table-done', True))
    return obs


def _shape(w, s, t):
    """stable description of a failing pair: constructor, declared variances, projection kinds"""
    def sh(x):
        if x[0] == 'P':
            params = w.generic[x[1]][0]
            return '%s<%s>' % (x[1], ','.join(
                '%s:%s' % (VN[p[1]], ('*' if a[2] is None else KN[a[1]]) if a[0] == 'W' else
                           ('plain' if a[0] != 'P' else sh(a)))
                for p, a in zip(params, x[2])))
        return x[0]
    return '%s<=%s' % (sh(s), sh(t))


def h_builtins(eng, lang):
    """all pairs of a language's built-in types (arrays and function types instantiated): soundness against
    the declared built-in hierarchy (read from the data attributes), reflexivity"""
    from src.ir import BUILTIN_FACTORIES
    f = BUILTIN_FACTORIES[lang]
    base = list(f.get_non_nothing_types())
    if hasattr(f, 'get_primitive_types'):
        base += f.get_primitive_types()
    num, integer = f.get_number_type(), f.get_integer_type()
    args = [integer, num, tp.WildCardType(num, tp.Covariant), tp.WildCardType(integer, tp.Contravariant), tp.WildCardType()]
    types = []
    for t in base:
        if isinstance(t, tp.TypeConstructor):
            if len(t.type_parameters) == 1:
                types += [t.new([a]) for a in args]
        else:
            types.append(t)
    f1 = f.get_function_type(1)
    types += [f1.new([integer, num]), f1.new([num, integer]), f1.new([tp.WildCardType(integer, tp.Contravariant),
                                                                      tp.WildCardType(num, tp.Covariant)])]
    w = World()
    w.top = w.snap(f.get_any_type())
    terms = [w.snap(t) for t in types]
    obs = []
    bad = None
    npos = 0
    for i, s_ in enumerate(types):
        for j, t_ in enumerate(types):
            r = bool(s_.is_subtype(t_))
            npos += r
            if r and not w.sub(terms[i], terms[j]) and bad is None:
                bad = (i, j)
    if bad:
        i, j = bad
        obs.append(Ob('unsound-builtin|%s|%s<=%s' % (lang, _bshape(terms[i]), _bshape(terms[j])), False,
                      dict(language=lang, S=str(types[i]), T=str(types[j]), S_class=type(types[i]).__name__,
                           T_class=type(types[j]).__name__)))
    for i, t_ in enumerate(types):
        if not t_.is_subtype(t_):
            obs.append(Ob('reflexive-builtin|%s' % lang, False, dict(language=lang, T=str(t_))))
            break
    eng.event('builtins')
    eng.notes['sample'] = dict(language=lang, types=len(types), positive=npos)
    obs.append(Ob('builtins-done', True))
    return obs


def _bshape(x):
    if x[0] == 'P':
        return '%s<%s>' % (x[1], ','.join(_bshape(a) for a in x[2]))
    if x[0] == 'W':
        return '*' if x[2] is None else '%s %s' % ({1: 'out', 2: 'in', 0: 'inv'}[x[1]], _bshape(x[2]))
    return x[2] if x[0] == 'B' else x[0]


# ---------------------------------------------- java assignability (soundness only)
def h_java_assign(eng):
    """java primitive/boxed/array assignability: is_assignable never contradicts the
    widening table of the JLS for the numeric types the tool models"""
    prim = [jt.Byte, jt.Short, jt.Integer, jt.Long, jt.Float, jt.Double]
    names = ['byte', 'short', 'int', 'long', 'float', 'double']
    i = int(eng.fresh_int(0, len(prim) - 1, 'i'))
    j = int(eng.fresh_int(0, len(prim) - 1, 'j'))
    pi = int(bool(eng.fresh_bool('primitive_i')))
    pj = int(bool(eng.fresh_bool('primitive_j')))
    s = type(prim[i])(primitive=bool(pi)) if _has_primitive(prim[i]) else prim[i]
    t = type(prim[j])(primitive=bool(pj)) if _has_primitive(prim[j]) else prim[j]
    got = bool(s.is_assignable(t))
    # JLS 5.1.2 widening primitive conversion (+ identity); boxed types convert only to themselves /
    # their supertypes; the tool additionally lets integral literals' types flow to wider *boxed* types.
    # JLS 5.2 assignment contexts: primitive -> primitive by identity / widening; primitive -> boxed only by boxing to its own
    # box (widening followed by boxing is not permitted: `Integer x = aShort` is rejected); boxed -> boxed identity;
    # boxed -> primitive by unboxing followed by widening
    if pi and pj:
        jls = i <= j
    elif pi and not pj:
        jls = i == j
    elif not pi and not pj:
        jls = i == j
    else:
        jls = i <= j
    ok = (not got) or jls
    eng.event('java-assign')
    eng.notes['sample'] = dict(S=names[i], T=names[j], primitive=(pi, pj), assignable=got)
    return [Ob('java-assignable|%s->%s' % (names[i], names[j]), ok,
               dict(S=str(s), T=str(t), primitive=(pi, pj), assignable=got))]


def _has_primitive(t):
    try:
        type(t)(primitive=True)
        return True
    except TypeError:
        return False


FUNCS = [tp._is_type_arg_contained, tp.ParameterizedType.is_subtype, tp.SimpleClassifier.is_subtype,
         tp.Type.get_supertypes, tp.WildCardType.is_subtype, tp.TypeParameter.is_subtype,
         tp.NothingType.is_subtype, tp.Builtin.is_subtype, tp.ParameterizedType.__eq__,
         tp.TypeConstructor.new, tp.perform_type_substitution, tp.Type.is_assignable]
OUT = ('(II) types deeper / tables larger than the bounds; declaration-site variance well-formedness of the table is '
       'not required; java arrays of primitives; the paper step that glues the rule lemmas into an induction over '
       'derivations; exactness is claimed only without type variables, primitives, star, the top type and projections '
       'opposing the declaration-site variance (also after substitution into supertypes)')


def jobs(tier):
    out = []
    for exact in (False, True):
        tag = 'exact' if exact else 'sound'
        out.append(Job('lemma-containment-%s' % tag, h_containment, dict(exact=exact), serial=True,
                       functions=[tp._is_type_arg_contained], require_events=['containment:pos'],
                       bounds='all 3 declared variances x 4x4 argument kinds; sub-judgements are free solver atoms under '
                              'the induction hypothesis impl %s decl => all type depths' % ('<=>' if exact else '=>'),
                       outside=OUT))
        for arity, nsup in ((1, 0), (1, 1), (2, 0)) + (((2, 1),) if tier == 'thorough' else ()):
            out.append(Job('lemma-parameterized-%s-arity%d-sup%d' % (tag, arity, nsup), h_parameterized,
                           dict(exact=exact, arity=arity, nsup=nsup), split_depth=3,
                           functions=[tp.ParameterizedType.is_subtype, tp.SimpleClassifier.is_subtype],
                           require_events=['ptype:pos'],
                           bounds='same-constructor pairs of arity %d with %d opaque declared supertypes, all variances '
                                  'and projection kinds, atoms for all sub-judgements' % (arity, nsup), outside=OUT))
        for shape in ('simple', 'simple-chain', 'parameterized'):
            out.append(Job('lemma-nominal-%s-%s' % (shape, tag), h_nominal, dict(exact=exact, shape=shape), serial=True,
                           functions=[tp.SimpleClassifier.is_subtype], require_events=['nominal:pos'],
                           bounds='0..2 opaque supertypes, opaque target', outside=OUT))
    out.append(Job('lemma-small-rules', h_small_rules, {}, serial=True, functions=FUNCS[4:8],
                   bounds='WildCardType/TypeParameter/Nothing/is_assignable on opaque leaves', outside=OUT))
    out.append(Job('java-assignability', h_java_assign, {}, serial=True, functions=[jt.ParameterizedType.is_assignable
                                                                                  if hasattr(jt, 'ParameterizedType') else tp.ParameterizedType.is_assignable],
                   bounds='6x6 numeric types x primitive/boxed', outside=OUT))
    for lang in ('java', 'kotlin', 'groovy', 'scala'):
        out.append(Job('builtins-%s' % lang, h_builtins, dict(lang=lang), serial=True, crosscheck_every=0,
                       functions=[tp.Builtin.is_subtype, tp.ParameterizedType.is_subtype, tp.TypeConstructor.__eq__],
                       require_events=['builtins'],
                       bounds='all pairs of the built-in types of %s (arrays, specialised arrays and Function1 instantiated '
                              'with Int / Number / out Number / in Int / *)' % lang, outside=OUT))
    out.append(Job('tables-depth2-n1', h_tables, dict(nmax=1, depth=2, two_param=False, builtins=False, trans=False, fixed_n=1),
                   split_depth=4, functions=FUNCS, require_events=['pairs'], crosscheck_every=50, budget_s=900,
                   bounds='tables with one class A, G<v X[:A]>, H<v Y[:A]> (5 supertype shapes): all pairs of ground types of '
                          'depth <= 2 (types whose printed forms coincide included)', outside=OUT))
    if tier == 'quick':
        out.append(Job('tables-depth1-n3', h_tables, dict(nmax=3, depth=1, two_param=False, builtins=True, trans=True),
                       split_depth=4, functions=FUNCS, require_events=['pairs', 'nontrivial-positives', 'exactness-pairs'],
                       crosscheck_every=200, budget_s=900,
                       bounds='every table with <=3 classes (all extends matrices), G<v X[:A]>, H<v Y[:A]> : '
                              '{Any, A, G<Y>, G<C>, G<G<Y>>}; all pairs of well-formed ground types of depth <= 1 '
                              '(plain/out/in/star arguments over classes, Any, Number, Int)', outside=OUT))
        out.append(Job('tables-depth1-n2-K2', h_tables, dict(nmax=2, depth=1, two_param=True, builtins=False, trans=False),
                       split_depth=4, functions=FUNCS, require_events=['pairs'], crosscheck_every=200, budget_s=900,
                       bounds='tables with <=2 classes plus a two-parameter class K<v U, v V> (skipped-argument shapes), depth 1',
                       outside=OUT))
    else:
        out.append(Job('tables-depth1-n4', h_tables, dict(nmax=4, depth=1, two_param=False, builtins=True, trans=True),
                       split_depth=5, functions=FUNCS, require_events=['pairs', 'nontrivial-positives', 'exactness-pairs'],
                       crosscheck_every=500, budget_s=3000,
                       bounds='every table with <=4 classes, G, H as in quick; all depth-1 pairs; transitivity on all triples',
                       outside=OUT))
        out.append(Job('tables-depth1-n3-K2', h_tables, dict(nmax=3, depth=1, two_param=True, builtins=False, trans=True),
                       split_depth=5, functions=FUNCS, require_events=['pairs'], crosscheck_every=500, budget_s=3000,
                       bounds='tables with <=3 classes plus K<v U, v V>, depth 1', outside=OUT))
        out.append(Job('tables-depth2-n2', h_tables, dict(nmax=2, depth=2, two_param=False, builtins=False, trans=False),
                       split_depth=5, functions=FUNCS, require_events=['pairs'], crosscheck_every=500, budget_s=3000,
                       bounds='tables with <=2 classes, all pairs of ground types of depth <= 2', outside=OUT))
    return out


META = dict(
    level='other',
    technique='assume-guarantee rule lemmas (real is_subtype/_is_type_arg_contained on leaf types whose sub-judgements '
              'are z3 atoms, all depths) + bounded symbolic exploration of real code on all small class tables vs a '
              'declarative reference relation',
    assumptions=['declarative relation vlib/ref.py (interval semantics of type arguments) is the specification',
                 'lemma counterexamples are replayed with the leaf stubs (rule level); part II counterexamples are '
                 'real types built with the real constructors'],
)


def mutants():
    out = []
    orig = tp._is_type_arg_contained

    def rev(t, other, type_param):
        is_w, is_w2 = isinstance(t, tp.WildCardType), isinstance(other, tp.WildCardType)
        if not is_w and not is_w2 and type_param.is_contravariant():
            return t.is_subtype(other)          # reversed variance
        return orig(t, other, type_param)
    out.append(('containment: contravariant parameter checked covariantly',
                lambda: setattr(tp, '_is_type_arg_contained', rev), lambda: setattr(tp, '_is_type_arg_contained', orig)))
    orig_ps = tp.ParameterizedType.is_subtype

    def skip(self, other):
        if tp.SimpleClassifier.is_subtype(self, other):
            return True
        if other.is_parameterized() and self.t_constructor == other.t_constructor:
            for tp_, sarg, targ in list(zip(self.t_constructor.type_parameters, self.type_args, other.type_args))[:1]:
                if not tp._is_type_arg_contained(sarg, targ, tp_):
                    return False
            return True
        return False
    out.append(('ParameterizedType.is_subtype checks only the first type argument',
                lambda: setattr(tp.ParameterizedType, 'is_subtype', skip),
                lambda: setattr(tp.ParameterizedType, 'is_subtype', orig_ps)))
    return out
