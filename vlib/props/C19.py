"""C19 -- graph queries agree with their textbook definitions.

The real functions of src/graph_utils.py run on a graph whose N*N edges are
solver booleans.  The adjacency containers are lazy: an edge bit is decided
only when the code iterates over it or tests membership, so a path fixes only
the edges the code looked at; the obligation (a closure formula over *all*
edge terms) must then hold for every value of the unexamined ones.
"""
import itertools

import z3

from vlib.symex import Ob, T, SymBool
from vlib.runner import Job

from src import graph_utils as gu
from src.analysis import type_dependency_analysis as tda


class LazyAdj(list):
    """Adjacency of one vertex; membership of target j is row[j] (symbolic)."""

    def __init__(self, row, wrap=None):
        super().__init__()
        self.row = row
        self.wrap = wrap or (lambda j: j)

    def __iter__(self):
        for j, b in enumerate(self.row):
            if b:
                yield self.wrap(j)

    def __contains__(self, j):
        return isinstance(j, int) and 0 <= j < len(self.row) and bool(self.row[j])

    def __len__(self):
        return sum(1 for _ in self)

    def __bool__(self):
        return any(True for _ in self)

    def __eq__(self, other):
        return list(iter(self)) == list(other)

    __hash__ = None


def edges(eng, n, m=None):
    m = n if m is None else m
    return [[eng.fresh_bool('e%d_%d' % (i, j)) for j in range(m)] for i in range(n)]


def closure(E, n, reflexive=True):
    """Warshall over z3 terms: R[i][j] <=> j reachable from i (>= 0 edges).
    Cached per process: edge terms are the same z3 constants on every path."""
    key = ('closure', reflexive, tuple(T(E[i][j]).get_id() for i in range(n) for j in range(n)))
    c = _CACHE.get(key)
    if c is None:
        c = _CACHE[key] = _closure(E, n, reflexive)
    return c


_CACHE = {}


def _closure(E, n, reflexive=True):
    R = [[z3.BoolVal(True) if (i == j and reflexive) else T(E[i][j]) for j in range(n)]
         for i in range(n)]
    for k in range(n):
        R = [[z3.simplify(z3.Or(R[i][j], z3.And(R[i][k], R[k][j]))) for j in range(n)]
             for i in range(n)]
    return R


def sym_closure(E, n):
    key = ('sym', tuple(T(E[i][j]).get_id() for i in range(n) for j in range(n)))
    c = _CACHE.get(key)
    if c is None:
        c = _CACHE[key] = _sym_closure(E, n)
    return c


def _sym_closure(E, n):
    S = [[z3.Or(T(E[i][j]), T(E[j][i])) for j in range(n)] for i in range(n)]
    return _closure(S, n)


def show(E, n, m=None):
    """Concrete rendering of the graph (only meaningful in concrete replays)."""
    m = n if m is None else m
    return {i: [j for j in range(m) if isinstance(E[i][j], bool) and E[i][j]] for i in range(n)}


def graph_of(E, n):
    return {i: LazyAdj(E[i]) for i in range(n)}


def _eqset(got, want_terms):
    """got: concrete python set of vertices; want_terms[j]: z3 Bool."""
    return z3.And(*[(w if (j in got) else z3.Not(w)) for j, w in enumerate(want_terms)])


# --------------------------------------------------------------------- harnesses
def h_pair(eng, N, fn, vfix=None):
    """reachable / bi_reachable / connected on (s, d)."""
    E = edges(eng, N)
    g = graph_of(E, N)
    s = int(eng.fresh_int(0, N, 's')) if vfix is None else vfix       # N = a vertex missing from the graph
    d = int(eng.fresh_int(0, N - 1, 'd'))
    got = getattr(gu, fn)(g, s, d)
    if not isinstance(got, bool):
        return [Ob('%s:returns-bool' % fn, False, dict(got=repr(got)))]
    eng.event('%s=%s' % (fn, got))
    if s == N:
        eng.event('missing-start')
        want = z3.BoolVal(False)
        if fn == 'bi_reachable':
            # d ->* s is impossible as well: s is no vertex of the graph
            want = z3.BoolVal(False)
    else:
        R = closure(E, N)
        if fn == 'reachable':
            want = R[s][d]
        elif fn == 'bi_reachable':
            want = z3.Or(R[s][d], R[d][s])
        else:
            want = sym_closure(E, N)[s][d]
    eng.notes['sample'] = dict(fn=fn, N=N, s=s, d=d, got=got, decided_edges=len(eng._trace))
    eng.notes['observe'] = got
    return [Ob('%s|s=%d,d=%d,N=%d' % (fn, s, d, N), want == z3.BoolVal(got),
               lambda: dict(fn=fn, graph=show(E, N), s=s, d=d, got=got))]


def h_set(eng, N, fn, vfix=None):
    """find_all_reachable / find_all_bi_reachable / find_all_connected."""
    E = edges(eng, N)
    g = graph_of(E, N)
    v = int(eng.fresh_int(0, N - 1, 'v')) if vfix is None else vfix
    got = getattr(gu, fn)(g, v)
    got = set(got)
    R = closure(E, N)
    if fn == 'find_all_reachable':
        want = [R[v][j] for j in range(N)]
    elif fn == 'find_all_bi_reachable':
        want = [z3.Or(R[v][j], R[j][v]) for j in range(N)]
    else:
        S = sym_closure(E, N)
        want = [S[v][j] for j in range(N)]
    eng.event('%s:size=%d' % (fn, len(got)))
    eng.notes['sample'] = dict(fn=fn, N=N, v=v, got=sorted(got))
    eng.notes['observe'] = sorted(got)
    return [Ob('%s|v=%d,N=%d' % (fn, v, N), z3.And(got <= set(range(N)), _eqset(got, want)),
               lambda: dict(fn=fn, graph=show(E, N), v=v, got=sorted(got)))]


def h_sources(eng, N, vfix=None):
    E = edges(eng, N)
    g = graph_of(E, N)
    v = int(eng.fresh_int(0, N - 1, 'v')) if vfix is None else vfix
    got = gu.find_sources(g, v)
    R = closure(E, N)
    want = [z3.And(R[u][v], z3.Not(z3.Or(*[T(E[p][u]) for p in range(N)]))) for u in range(N)]
    nodup = len(got) == len(set(got))
    eng.event('sources=%d' % len(got))
    eng.notes['sample'] = dict(fn='find_sources', N=N, v=v, got=list(got))
    eng.notes['observe'] = sorted(got)
    return [Ob('find_sources|v=%d,N=%d' % (v, N), z3.And(nodup, _eqset(set(got), want)),
               lambda: dict(fn='find_sources', graph=show(E, N), v=v, got=list(got)))]


def _simple_paths(N, v):
    out = []
    others = [u for u in range(N) if u != v]
    for k in range(0, N):
        for perm in itertools.permutations(others, k):
            out.append((v,) + perm)
    return out


def _path_term(E, p):
    return z3.And(*[T(E[a][b]) for a, b in zip(p, p[1:])]) if len(p) > 1 else z3.BoolVal(True)


def h_paths(eng, N, fn, vfix=None):
    """find_all_paths / find_longest_paths."""
    E = edges(eng, N)
    g = graph_of(E, N)
    v = int(eng.fresh_int(0, N - 1, 'v')) if vfix is None else vfix
    got = getattr(gu, fn)(g, v)
    gotl = [tuple(p) for p in got]
    cands = _simple_paths(N, v)
    exists = {p: _path_term(E, p) for p in cands}
    conj = [len(gotl) == len(set(gotl)), all(p in exists for p in gotl)]
    gs = set(gotl)
    for p in cands:
        if fn == 'find_all_paths':
            want = exists[p]
        else:
            ext = [exists[q] for q in cands if len(q) == len(p) + 1 and q[:len(p)] == p]
            want = z3.And(exists[p], z3.Not(z3.Or(*ext))) if ext else exists[p]
        conj.append(want if p in gs else z3.Not(want))
    eng.event('%s:n=%d' % (fn, min(len(gotl), 3)))
    eng.event('%s:maxlen=%d' % (fn, max(len(p) for p in gotl) if gotl else 0))
    eng.notes['sample'] = dict(fn=fn, N=N, v=v, got=[list(p) for p in gotl][:6])
    eng.notes['observe'] = sorted(gotl)
    return [Ob('%s|v=%d,N=%d' % (fn, v, N), z3.And(*[T(c) for c in conj]),
               lambda: dict(fn=fn, graph=show(E, N), v=v, got=[list(p) for p in gotl]))]


def h_dfs(eng, N):
    """dfs over Edge(target,label) lists, as is_combination_feasible uses it;
    vertex N is a target that is no key of the graph, N+1 a missing source."""
    E = edges(eng, N, N + 1)
    g = {i: LazyAdj(E[i], wrap=lambda j: tda.Edge(j, tda.Edge.INFERRED)) for i in range(N)}
    s = int(eng.fresh_int(0, N + 1, 's'))
    got = set(gu.dfs(g, s))
    M = N + 1
    Efull = [list(E[i]) for i in range(N)] + [[False] * M]
    if s <= N:
        R = closure(Efull, M)
        want = [R[s][j] if j != s else z3.BoolVal(False) for j in range(M)]
    else:
        eng.event('dfs:missing-source')
        want = [z3.BoolVal(False)] * M
    if N in got:
        eng.event('dfs:reached-non-key-target')
    eng.event('dfs:size=%d' % len(got))
    eng.notes['sample'] = dict(fn='dfs', N=N, s=s, got=sorted(got))
    eng.notes['observe'] = sorted(got)
    return [Ob('dfs|s=%d,N=%d' % (s, N), z3.And(got <= set(range(M)), _eqset(got, want)),
               lambda: dict(fn='dfs', graph=show(E, N, N + 1), s=s, got=sorted(got)))]


def h_none(eng, N, fn, vfix=None):
    """none_reachable / none_connected: exists a vertex u related to v with u related to
    the NONE node (vertex 0 plays NONE)."""
    E = edges(eng, N)
    g = graph_of(E, N)
    v = int(eng.fresh_int(0, N - 1, 'v')) if vfix is None else vfix
    got = getattr(gu, fn)(g, v, none_node=0)
    if fn == 'none_reachable':
        R = closure(E, N)
        rel = [[z3.Or(R[i][j], R[j][i]) for j in range(N)] for i in range(N)]
    else:
        rel = sym_closure(E, N)
    want = z3.Or(*[z3.And(rel[v][u], rel[u][0]) for u in range(N)])
    eng.event('%s=%s' % (fn, got))
    eng.notes['sample'] = dict(fn=fn, N=N, v=v, got=got)
    eng.notes['observe'] = got
    return [Ob('%s|v=%d,N=%d' % (fn, v, N), want == z3.BoolVal(bool(got)),
               lambda: dict(fn=fn, graph=show(E, N), v=v, got=got))]


# ----------------------------------------------------------------------- jobs
OUTSIDE = ('graphs with more than N vertices; adjacency targets that are not keys of the graph '
           '(except for dfs, which is given one such target); non-list adjacency containers other '
           'than the lazy sequence (membership + iteration is all the code uses)')


def jobs(tier):
    out = []
    pair = [('reachable', gu.reachable), ('bi_reachable', gu.bi_reachable), ('connected', gu.connected)]
    sets = [('find_all_reachable', gu.find_all_reachable),
            ('find_all_bi_reachable', gu.find_all_bi_reachable),
            ('find_all_connected', gu.find_all_connected)]
    big = 4
    small = 3
    for fn, f in pair:
        for N in (([small, big] if fn == 'reachable' else [small]) if tier == 'quick'
                  else [1, 2, small, big]):
            out.append(Job('%s-N%d' % (fn, N), h_pair, dict(N=N, fn=fn), split_depth=5,
                           require_events=['%s=True' % fn, '%s=False' % fn] + (['missing-start'] if N > 1 else []),
                           functions=[f], budget_s=900,
                           bounds='all digraphs on %d vertices (%d symbolic edge bits incl. self-loops), every '
                                  'start (also one missing from the graph) and destination' % (N, N * N),
                           outside=OUTSIDE))
    for fn, f in sets:
        for N in ([small] if tier == 'quick' else [1, 2, small, big]):
            out.append(Job('%s-N%d' % (fn, N), h_set, dict(N=N, fn=fn), split_depth=5,
                           functions=[f, gu.find_longest_paths, gu.find_all_paths], budget_s=900,
                           bounds='all digraphs on %d vertices, every vertex' % N, outside=OUTSIDE))
    for N in ([small] if tier == 'quick' else [1, 2, small, big]):
        out.append(Job('find_sources-N%d' % N, h_sources, dict(N=N), split_depth=5,
                       functions=[gu.find_sources], budget_s=900,
                       bounds='all digraphs on %d vertices, every vertex' % N, outside=OUTSIDE))
        for fn, f in (('find_all_paths', gu.find_all_paths), ('find_longest_paths', gu.find_longest_paths)):
            out.append(Job('%s-N%d' % (fn, N), h_paths, dict(N=N, fn=fn), split_depth=5,
                           functions=[f], budget_s=900,
                           bounds='all digraphs on %d vertices, every start vertex; result compared with '
                                  'every candidate simple path' % N, outside=OUTSIDE))
        if tier == 'quick':
            # four vertices from the start vertex 0 (every graph; the other start vertices: thorough tier)
            b4 = 'all digraphs on 4 vertices, start vertex 0 (other starts: thorough tier)'
            for fn, f in pair[1:]:
                out.append(Job('%s-N4-from0' % fn, h_pair, dict(N=4, fn=fn, vfix=0), split_depth=5, functions=[f],
                               require_events=['%s=True' % fn, '%s=False' % fn], budget_s=900, bounds=b4, outside=OUTSIDE))
            for fn, f in sets[1:2]:     # the other two are compositions of functions covered on 4 vertices (thorough: all)
                out.append(Job('%s-N4-from0' % fn, h_set, dict(N=4, fn=fn, vfix=0), split_depth=5, functions=[f],
                               budget_s=900, bounds=b4, outside=OUTSIDE))
            out.append(Job('find_sources-N4-from0', h_sources, dict(N=4, vfix=0), split_depth=5, functions=[gu.find_sources],
                           budget_s=900, bounds=b4, outside=OUTSIDE))
            out.append(Job('find_all_paths-N4-from0', h_paths, dict(N=4, fn='find_all_paths', vfix=0), split_depth=5,
                           functions=[gu.find_all_paths], budget_s=900, bounds=b4, outside=OUTSIDE))
            out.append(Job('find_longest_paths-N4-from0', h_paths,
                           dict(N=4, fn='find_longest_paths', vfix=0), split_depth=5,
                           functions=[gu.find_longest_paths], budget_s=900,
                           bounds='all digraphs on 4 vertices, start vertex 0 (other starts: thorough tier)',
                           outside=OUTSIDE))
        out.append(Job('dfs-N%d' % N, h_dfs, dict(N=N), split_depth=5,
                       require_events=['dfs:missing-source'] + (['dfs:reached-non-key-target']),
                       functions=[gu.dfs, tda.is_combination_feasible], budget_s=900,
                       bounds='all graphs of Edge lists with %d key vertices + 1 target-only vertex, every '
                              'source incl. one missing from the graph' % N, outside=OUTSIDE))
        for fn, f in (('none_reachable', gu.none_reachable), ('none_connected', gu.none_connected)):
            out.append(Job('%s-N%d' % (fn, N), h_none, dict(N=N, fn=fn), split_depth=5,
                           require_events=['%s=True' % fn, '%s=False' % fn] if N > 1 else [],
                           functions=[f], budget_s=900,
                           bounds='all digraphs on %d vertices, every vertex, NONE node = vertex 0' % N,
                           outside=OUTSIDE))
    return out


META = dict(
    level='other',
    technique='bounded symbolic execution of src/graph_utils.py over solver-boolean edges (lazy '
              'adjacency) with z3; obligation = transitive-closure formula over all edge terms',
    assumptions=[
        'vertices are the keys of the graph dict; every adjacency target is a key (dfs: one extra '
        'target-only vertex); adjacency containers are used through iteration and membership only',
        'lazy adjacency container (vlib.props.C19.LazyAdj) stands for list/set adjacency',
        'PYTHONHASHSEED=0 (set iteration order fixed); results compared order-free where the '
        'definition is a set',
    ],
)


def mutants():
    import src.graph_utils as m
    out = []
    orig_reach = m.reachable

    def bad_reach(graph, s, d):
        if s == d and s in graph:
            return s in graph[s]
        return orig_reach(graph, s, d)
    out.append(('reachable: s reaches itself only through a self-loop',
                lambda: setattr(m, 'reachable', bad_reach), lambda: setattr(m, 'reachable', orig_reach)))
    orig_conn = m.connected

    def bad_conn(graph, s, d):
        return orig_reach(graph, s, d) or orig_reach(graph, d, s)
    out.append(('connected: degraded to bi_reachable',
                lambda: setattr(m, 'connected', bad_conn), lambda: setattr(m, 'connected', orig_conn)))
    orig_src = m.find_sources

    def bad_src(graph, vertex):
        return [s for s in orig_src(graph, vertex) if s != vertex] or [vertex]
    out.append(('find_sources: vertex itself reported although it has a predecessor (cycle)',
                lambda: setattr(m, 'find_sources', bad_src), lambda: setattr(m, 'find_sources', orig_src)))
    return out
