"""C03 -- type erasure only removes inferable type information.

The real TypeErasure runs on every member of the program families; an attribute-level
diff of the IR before/after must consist of removed declared types and of type-argument
lists marked as inferable only (frame condition), and every removed annotation must be
what the small reference typer (vlib/minityper.py) infers from the remaining program
where that typer can decide.  The feasibility search itself (dfs over the type graph) is
C19's subject.
"""
from src.ir import ast, types as tp

from vlib.symex import Ob
from vlib.runner import Job
from vlib import families as F
from vlib import pipeline as P
from vlib.minityper import Typer, declarations_with_namespace
from vlib.ref import World
from vlib.props.C11 import FixedRandom, members, fresh


def _flag_only(a, b):
    """two attribute renderings differ only in can_infer_type_args flags going False -> True"""
    if a == b:
        return True
    if isinstance(a, tuple) and isinstance(b, tuple) and len(a) == len(b):
        if a and a[0] == 'P' and b[0] == 'P' and len(a) == 4:
            return a[1] == b[1] and _flag_only(a[2], b[2]) and (a[3] == b[3] or (a[3] is False and b[3] is True))
        return all(_flag_only(x, y) for x, y in zip(a, b))
    return False


def classify(diff):
    """-> (allowed entries, forbidden entries)"""
    ok, bad = [], []
    for path, attr, a, b in diff:
        if attr in ('var_type', 'ret_type') and b is None and a is not None:
            ok.append((path, attr, 'removed'))
        elif attr == '_can_infer_type_args' and a is False and b is True:
            ok.append((path, attr, 'type arguments inferable'))
        elif attr == 'class_type' and _flag_only(a, b):
            ok.append((path, attr, 'type arguments inferable'))
        elif attr == 'type_parameters' and a == ('nodes', 0) and '/FunctionCall' in path:
            # annotation written by the type-dependency analysis (callee's type parameters), not program text
            ok.append((path, attr, 'analysis annotation'))
        elif _flag_only(a, b):
            # a type object shared with an instantiation node carries the inferable flag
            ok.append((path, attr, 'shared type object flagged'))
        else:
            bad.append((path, attr, str(a)[:120], str(b)[:120]))
    return ok, bad


def h_erasure(eng, tier, lang):
    names = members(tier)
    pname = names[int(eng.fresh_int(0, len(names) - 1, 'member'))]
    p0 = fresh(pname)
    p = P.clone(p0)
    with FixedRandom():
        try:
            p, t = P.erase(p, lang)
        except Exception as e:      # noqa -- failures of the stage are C18's subject
            eng.event('stage-failed')
            return [Ob('skip', True)]
    diff = P.irdiff(p0, p)
    ok, bad = classify(diff)
    case = dict(member=pname, language=lang, changed=len(diff), removed=[o for o in ok if o[2] == 'removed'][:6])
    obs = [Ob('frame|only-annotations-removed', not bad, dict(case, forbidden=bad[:4])),
           Ob('frame|changed-implies-is_transformed',
              bool(t.is_transformed) or not [o for o in ok if o[2] in ('removed', 'type arguments inferable')],
              dict(case, is_transformed=t.is_transformed))]
    # re-inference of the removed annotations
    typer = Typer(p)
    d0 = {(ns, d.name, type(d).__name__): d for ns, d in declarations_with_namespace(p0)}
    decided = undecided = 0
    for ns, d in declarations_with_namespace(p):
        old = d0.get((ns, d.name, type(d).__name__))
        if old is None:
            continue
        if isinstance(d, ast.VariableDeclaration) and d.var_type is None and old.var_type is not None:
            got = typer.expr(d.expr, ns if not isinstance(d, ast.FunctionDeclaration) else ns + (d.name,))
            want = old.var_type
        elif isinstance(d, ast.FunctionDeclaration) and d.ret_type is None and old.ret_type is not None:
            got = typer.expr(d.body, ns + (d.name,)) if d.body is not None else None
            want = old.ret_type
        else:
            continue
        if got is None:
            undecided += 1
            continue
        decided += 1
        same = _flag_only(P.type_repr(want), P.type_repr(got)) or _flag_only(P.type_repr(got), P.type_repr(want))
        if not same:
            # the inferred type may be narrower than the removed annotation (the declaration keeps accepting
            # its initialiser / body); primitive and boxed forms of a built-in are interchangeable here
            w = World()
            w.top = w.snap(p.bt_factory.get_any_type())
            a, b = w.snap(got), w.snap(want)
            same = w.sub(a, b) or (a[0] == 'B' and b[0] == 'B' and a[1] == b[1])
        obs.append(Ob('reinference|%s' % type(d).__name__, same,
                      dict(case, declaration='%s in %s' % (d.name, ns), removed=str(want), inferred=str(got))))
    obs += extra_obligations(p0, p, typer, case)
    eng.event('erased' if t.is_transformed else 'nothing-erased')
    if decided:
        eng.event('reinferred')
    eng.stats['reinferred'] = eng.stats.get('reinferred', 0) + decided
    eng.stats['undecided'] = eng.stats.get('undecided', 0) + undecided
    eng.notes['sample'] = dict(case, reinferred=decided, undecided=undecided)
    eng.notes['observe'] = len(diff)
    return obs


def _walk(n, parent=None):
    yield n, parent
    for c in (n.children() if hasattr(n, 'children') else []):
        yield from _walk(c, n)


def extra_obligations(p0, p, typer, case):
    """obligations that need no typing of arbitrary expressions:
    (diamond)  an instantiation that initialises a variable and whose type arguments became inferable: every type parameter of the class occurs in
               a constructor parameter (field) type, or the instantiation initialises a declaration that keeps a
               declared type of that class (expected type);
    (reassign) a non-final variable whose type was removed: every later plain assignment to it assigns a value of
               (a subtype of) the type inferred from the initialiser;
    (recursive) a function whose return type was removed does not call itself in its body;
    (operand)  a call in operand position of a binary operator whose type arguments became inferable: every type parameter
               of the callee occurs in one of its parameter types."""
    obs = []
    classes = p.context.get_classes(ast.GLOBAL_NAMESPACE, glob=True)
    funcs = p.context.get_funcs(ast.GLOBAL_NAMESPACE, glob=True)
    before = [n for d in P.top_decls(p0) for n, _ in _walk(d)]
    after = [(n, par) for d in P.top_decls(p) for n, par in _walk(d)]
    if len(before) != len(after):
        return obs
    d0 = {(ns, d.name, type(d).__name__): d for ns, d in declarations_with_namespace(p0)}
    for b, (n, par) in zip(before, after):
        if isinstance(n, ast.New) and isinstance(n.class_type, tp.ParameterizedType) and n.class_type.can_infer_type_args \
                and isinstance(b, ast.New) and not b.class_type.can_infer_type_args:
            cls = classes.get(n.class_type.name)
            if cls is None or not isinstance(par, ast.VariableDeclaration):
                continue        # elsewhere the expected type of the position may determine the arguments: undecided
            in_fields = set()
            for f in cls.fields:
                ft = f.get_type()
                if ft.is_type_var():
                    in_fields.add(ft.name)
                elif hasattr(ft, 'get_type_variables'):
                    in_fields.update(v.name for v in ft.get_type_variables(p.bt_factory))
            expected = isinstance(par, ast.VariableDeclaration) and par.var_type is not None and \
                getattr(par.var_type, 'name', None) == n.class_type.name
            missing = [tpar.name for tpar in cls.type_parameters if tpar.name not in in_fields]
            obs.append(Ob('diamond|type-arguments-inferable', expected or not missing,
                          dict(case, instantiation=str(n.class_type), not_inferable=missing,
                               declared_type_kept=expected)))
        if isinstance(n, ast.FunctionCall) and isinstance(b, ast.FunctionCall) and n.type_args and n.can_infer_type_args \
                and not b.can_infer_type_args and isinstance(par, ast.VariableDeclaration) and n.receiver is None:
            # (call-init) the erased type arguments of a call that initialises a variable are determined by the call's own
            # arguments, or -- for a type parameter that occurs in the return type -- by the declared type of the variable,
            # if that is kept
            callee = funcs.get(n.func)
            if callee is not None and callee.type_parameters:
                def tvars(t):
                    if t.is_type_var():
                        return {t.name}
                    if hasattr(t, 'get_type_variables'):
                        return {v.name for v in t.get_type_variables(p.bt_factory)}
                    return set()
                in_params = set()
                for prm in callee.params:
                    in_params |= tvars(prm.get_type())
                in_ret = tvars(callee.get_type())
                kept = par.var_type is not None
                missing = [tpar.name for tpar in callee.type_parameters
                           if tpar.name not in in_params and not (kept and tpar.name in in_ret)]
                obs.append(Ob('call-init|type-arguments-of-call-inferable', not missing,
                              dict(case, call=n.func, variable=par.name, declared_type_kept=kept, not_inferable=missing)))
        if isinstance(n, ast.FunctionCall) and isinstance(b, ast.FunctionCall) and n.type_args and n.can_infer_type_args \
                and not b.can_infer_type_args and isinstance(par, ast.BinaryOp):
            # (operand) an operator gives its operands no expected type: the erased type arguments of a call in operand
            # position must be determined by the call's own arguments
            callee = funcs.get(n.func)
            if callee is not None and callee.type_parameters:
                in_params = set()
                for prm in callee.params:
                    pt = prm.get_type()
                    if pt.is_type_var():
                        in_params.add(pt.name)
                    elif hasattr(pt, 'get_type_variables'):
                        in_params.update(v.name for v in pt.get_type_variables(p.bt_factory))
                missing = [tpar.name for tpar in callee.type_parameters if tpar.name not in in_params]
                obs.append(Ob('operand|type-arguments-of-call-inferable-from-its-arguments', not missing,
                              dict(case, call=n.func, operator=str(getattr(par, 'operator', '')), not_inferable=missing)))
    for ns, d in declarations_with_namespace(p):
        old = d0.get((ns, d.name, type(d).__name__))
        if old is None:
            continue
        if isinstance(d, ast.VariableDeclaration) and not d.is_final and d.var_type is None and old.var_type is not None:
            inferred = typer.expr(d.expr, ns)
            if inferred is None:
                continue
            w = World()
            w.top = w.snap(p.bt_factory.get_any_type())
            fn = None
            for ns2, f in declarations_with_namespace(p):
                if isinstance(f, ast.FunctionDeclaration) and ns2 + (f.name,) == ns:
                    fn = f
            scope = [fn.body] if fn is not None and fn.body is not None else P.top_decls(p)
            for root in scope:
                for n, _ in _walk(root):
                    if isinstance(n, ast.Assignment) and n.receiver is None and n.name == d.name:
                        rt = typer.expr(n.expr, ns)
                        if rt is None:
                            continue
                        obs.append(Ob('reassign|assigned-value-fits-inferred-type', w.sub(w.snap(rt), w.snap(inferred)),
                                      dict(case, variable=d.name, inferred=str(inferred), assigned=str(rt))))
        if isinstance(d, ast.FunctionDeclaration) and d.ret_type is None and old.ret_type is not None and d.body is not None:
            calls_self = any(isinstance(n, ast.FunctionCall) and n.func == d.name for n, _ in _walk(d.body))
            obs.append(Ob('recursive|erased-return-type-of-self-calling-function', not calls_self,
                          dict(case, function=d.name)))
    return obs


FUNCS = [P.TypeErasure.visit_func_decl, P.TypeErasure.visit_var_decl]
OUT = ('programs outside the families; removed annotations whose initialiser/body is beyond the small reference typer '
       '(counted as undecided in the evidence); inference of erased type arguments (diamond) from constructor arguments / '
       'expected types; the choice among several feasible subsets (the code takes the first largest one)')


def jobs(tier):
    out = []
    langs = ['java', 'kotlin'] if tier == 'quick' else F.LANGS
    for lang in langs:
        out.append(Job('erasure-%s' % lang, h_erasure, dict(tier=tier, lang=lang), split_depth=1, functions=FUNCS,
                       require_events=['erased', 'reinferred'], budget_s=2400, crosscheck_every=20,
                       setup=lambda t=tier: members(t),
                       bounds='every family member (41 fixtures + %d generated programs per language), mutation run as for %s'
                              % (2 if tier == 'quick' else 5, lang), outside=OUT))
    return out


META = dict(
    level='other',
    technique='bounded exploration of the real TypeErasure over program families with an attribute-level IR diff (frame) '
              'and re-inference of removed annotations by a small reference typer; no solver decision beyond member selection',
    assumptions=['vlib/minityper.py (reference typer, answers only on evident cases)', 'vlib/pipeline.py irdiff'],
)


def mutants():
    from src.analysis import type_dependency_analysis as tda
    out = []
    orig = tda.is_combination_feasible
    out.append(('every combination is feasible', lambda: setattr(tda, 'is_combination_feasible', lambda g, c: True),
                lambda: setattr(tda, 'is_combination_feasible', orig)))
    return out
