"""C07 -- instantiating a generic class substitutes everywhere and mutates nothing.

Real TypeConstructor.new / substitute_type / to_variance_free /
to_type_variable_free are driven by a symbolic history of operations that
share constructor and argument objects; every result is compared with an
independent substitution on a structural snapshot taken *before* the first
call, and raw deep snapshots of every definition, argument and earlier result
are compared before/after each call.
"""
import itertools

from src.ir import types as tp, kotlin_types as kt

from vlib.symex import Ob
from vlib.runner import Job
from vlib import univ
from vlib.ref import World, show

FACTORY = kt.KotlinBuiltinFactory()


def raw(t, depth=0):
    """raw deep snapshot through data attributes (detects in-place mutation)"""
    if t is None:
        return None
    if depth > 14:
        return ('...',)
    if isinstance(t, tp.WildCardType):
        return ('W', t.variance.value, raw(t.bound, depth + 1))
    if isinstance(t, tp.TypeParameter):
        return ('V', t.name, t.variance.value, raw(t.bound, depth + 1))
    if isinstance(t, tp.ParameterizedType):
        return ('P', t.name, tuple(raw(a, depth + 1) for a in t.type_args),
                tuple(raw(s, depth + 1) for s in t.supertypes), raw(t.t_constructor, depth + 1))
    if isinstance(t, tp.TypeConstructor):
        return ('C', t.name, tuple(raw(p, depth + 1) for p in t.type_parameters),
                tuple(raw(s, depth + 1) for s in t.supertypes))
    if isinstance(t, tp.Builtin):
        return ('B', type(t).__name__)
    return ('S', t.name, tuple(raw(s, depth + 1) for s in t.supertypes))


F_SUPS = ['any']
G_SUPS = ['any', 'F<X>', 'F<F<X>>', 'F<out X>', 'F<Z:X>']
H_SUPS = ['G<Y>', 'G<G<Y>>', 'G<out Y>', 'G<in G<Y>>', 'A']
K_BOUNDS = ['none', 'U', 'G<U>', 'F<out U>']
K_SUPS = ['any', 'G<V>', 'F<U>']


def build(eng, ntables):
    """table = one of the |G_SUPS| x |H_SUPS| supertype-shape combinations; the remaining selectors
    (variance of F, bound of X/Y/U, bound and supertype of K) cycle with the table index so that every
    value of every selector occurs"""
    ti = ntables[int(eng.fresh_int(0, len(ntables) - 1, 'table'))]
    c = _TABLES.get(ti)
    if c is not None and [raw(g) for g in c[1]] == c[3]:
        return c[0], c[1], c[2]        # pristine (verified): reuse, building costs 3 ms of deep copies
    classes, gens, desc = _build(ti)
    _TABLES[ti] = (classes, gens, desc, [raw(g) for g in gens])
    return classes, gens, desc


_TABLES = {}


def _build(ti):
    gs_, hs_ = ti % len(G_SUPS), (ti // len(G_SUPS)) % len(H_SUPS)
    fv, gb, kb, ks = ti % 3, (ti // 2) % 2, (ti + ti // 4) % len(K_BOUNDS), (ti + ti // 3) % len(K_SUPS)
    A = tp.SimpleClassifier('A', [univ.ANY])
    B = tp.SimpleClassifier('B', [A])
    Z = tp.TypeParameter('Z', fv)
    F = tp.TypeConstructor('F', [tp.TypeParameter('Z', univ.VAR[fv])], [univ.ANY])
    X = tp.TypeParameter('X', bound=A if gb else None)
    gsup = {0: [univ.ANY], 1: [F.new([X])], 2: [F.new([F.new([X])])],
            3: [F.new([tp.WildCardType(X, tp.Covariant)])],
            4: [F.new([tp.TypeParameter('Q', bound=X)])]}[gs_]
    G = tp.TypeConstructor('G', [X], gsup)
    Y = tp.TypeParameter('Y', univ.VAR[(ti // 3) % 3], bound=A if gb else None)
    hsup = {0: [G.new([Y])], 1: [G.new([G.new([Y])])], 2: [G.new([tp.WildCardType(Y, tp.Covariant)])],
            3: [G.new([tp.WildCardType(G.new([Y]), tp.Contravariant)])], 4: [A]}[hs_]
    H = tp.TypeConstructor('H', [Y], hsup)
    U = tp.TypeParameter('U', bound=A if gb else None)
    vb = {0: None, 1: U, 2: G.new([U]), 3: F.new([tp.WildCardType(U, tp.Covariant)])}[kb]
    V = tp.TypeParameter('V', univ.VAR[(ti // 5) % 3], bound=vb)
    ksup = {0: [univ.ANY], 1: [G.new([V])], 2: [F.new([U])]}[ks]
    K = tp.TypeConstructor('K', [U, V], ksup)
    desc = dict(Yvariance=['inv', 'out', 'in'][(ti // 3) % 3], F='F<%s Z>' % ['', 'out', 'in'][fv], G='G<X%s> : %s' % (' : A' if gb else '', G_SUPS[gs_]),
                H='H<Y> : %s' % H_SUPS[hs_], K='K<U, %sV : %s> : %s' % (['', 'out ', 'in '][(ti // 5) % 3], K_BOUNDS[kb], K_SUPS[ks]))
    return [A, B], [F, G, H, K], desc


def check_instance(w0, r, where):
    """the .supertypes chain of result r equals the reference substitution (world w0 = snapshot
    of the definitions before any call), transitively"""
    probs = []
    todo, seen = [r], 0
    while todo and seen < 40:
        t = todo.pop()
        seen += 1
        if not isinstance(t, tp.ParameterizedType):
            continue
        ws = World()
        ws.top = w0.top
        term = ws.snap(t)            # structure of t itself (args)
        want = w0.direct_supers(term)
        got = tuple(ws.snap(u) for u in t.supertypes)
        if got != want:
            probs.append('%s: supertypes of %s are [%s], reference [%s]' % (
                where, show(term), ', '.join(map(show, got)), ', '.join(map(show, want))))
            break
        todo.extend(t.supertypes)
    return probs


def h_history(eng, K, pool_extra, ntables):
    classes, gens, desc = build(eng, ntables)
    A, B = classes
    w0 = World()
    w0.top = w0.snap(univ.ANY)
    for g in gens:
        w0.snap(g)
    for c in classes:
        w0.snap(c)
    base = [A, B, univ.ANY, kt.Integer, tp.WildCardType(A, tp.Covariant), tp.WildCardType(B, tp.Contravariant),
            tp.WildCardType()]
    pool = list(base[:3 + pool_extra])
    tracked = []     # (label, object, raw snapshot at creation)
    for g in gens:
        tracked.append(('definition %s' % g.name, g, raw(g)))
    for p in pool:
        tracked.append(('argument %s' % p, p, raw(p)))
    log, probs = [], []
    results = []

    def pick(hint):
        return pool[int(eng.fresh_int(0, len(pool) - 1, hint))]
    for step in range(K):
        op = int(eng.fresh_int(0, 3, 'op'))
        if op == 0:
            g = gens[int(eng.fresh_int(0, len(gens) - 1, 'con'))]
            args = [pick('arg') for _ in g.type_parameters]
            r = g.new(args)
            log.append('%s.new(%s)' % (g.name, ', '.join(map(str, args))))
            if all(not a.has_type_variables() for a in args):
                probs += check_instance(w0, r, log[-1])
            if [id(a) for a in r.type_args] != [id(a) for a in args]:
                probs.append('%s: type_args are not the given arguments' % log[-1])
            if not (r.name == g.name and raw(r.t_constructor.type_parameters[0]) == raw(g.type_parameters[0])):
                probs.append('%s: constructor of the result differs from the definition' % log[-1])
            eng.event('new')
        elif op == 1:
            g = gens[int(eng.fresh_int(0, len(gens) - 1, 'con'))]
            nest = bool(eng.fresh_bool('nested'))
            pattern = g.new(list(g.type_parameters))
            if nest:
                pattern = gens[0].new([tp.WildCardType(pattern, tp.Covariant)])
            full = bool(eng.fresh_bool('full_map'))
            m = {}
            for i, p in enumerate(g.type_parameters):
                if full or i == 0:
                    m[p] = pick('val')
            wp = World()
            wp.top = w0.top
            want = w0.subst(wp.snap(pattern), {p.name: wp.snap(v) for p, v in m.items()})
            before = raw(pattern)
            r = tp.substitute_type(pattern, m)
            log.append('substitute_type(%s, {%s})' % (pattern, ', '.join('%s: %s' % (k.name, v) for k, v in m.items())))
            got = wp.snap(r)
            if got != want:
                probs.append('%s = %s, reference %s' % (log[-1], show(got), show(want)))
            if raw(pattern) != before:
                probs.append('%s modified its input' % log[-1])
            # a type variable that is not replaced stays the same variable (its declared variance included)
            kept = {n: v for n, v in _variables(raw(pattern)).items() if n not in {k.name for k in m}}
            now = _variables(raw(r))
            for n, v in kept.items():
                if n in now and now[n] != v and not any(n in _variables(raw(x)) for x in m.values()):
                    probs.append('%s changed the declared variance of the type variable %s' % (log[-1], n))
            ground = all(not v.has_type_variables() for v in m.values())
            if full and ground:
                # the statement speaks of type-variable-free results only
                probs += check_instance(w0, r, log[-1])
            e = tp.substitute_type(pattern, {})
            if not (e == pattern and wp.snap(e) == wp.snap(pattern)):
                probs.append('substitute_type(%s, {}) is not equal to its input' % pattern)
            ground = all(not v.has_type_variables() for v in m.values())
            if full and ground and (r.has_type_variables() or w0.mentions(got, lambda x: x[0] == 'V')):
                probs.append('%s still has type variables' % log[-1])
            eng.event('substitute')
        elif op == 2:
            cands = [x for x in results if isinstance(x, tp.ParameterizedType)]
            if not cands:
                return [Ob('skip', True)]
            t = cands[int(eng.fresh_int(0, len(cands) - 1, 'res'))]
            before = raw(t)
            r = t.to_variance_free()
            log.append('%s.to_variance_free()' % t)
            wp = World()
            wp.top = w0.top
            st = wp.snap(t)
            want_args = tuple((a[2] if a[0] == 'W' and a[2] is not None else a) for a in st[2])
            # nested wildcard bounds are unwrapped by get_bound_rec
            want_args = tuple(_unwrap(a) if x[0] == 'W' and x[2] is not None else a for a, x in zip(want_args, st[2]))
            if wp.snap(r) != ('P', st[1], want_args):
                probs.append('%s = %s, reference %s' % (log[-1], show(wp.snap(r)), show(('P', st[1], want_args))))
            if raw(t) != before:
                probs.append('%s modified its receiver' % log[-1])
            if not r.has_type_variables():
                probs += check_instance(w0, r, log[-1])
            eng.event('variance-free')
        else:
            g = gens[int(eng.fresh_int(1, len(gens) - 1, 'con'))]
            pattern = g.new(list(g.type_parameters))
            before = raw(pattern)
            r = pattern.to_type_variable_free(FACTORY)
            log.append('%s.to_type_variable_free()' % pattern)
            wp = World()
            wp.top = w0.top
            if r.has_type_variables() or w0.mentions(wp.snap(r), lambda x: x[0] == 'V'):
                probs.append('%s = %s still has type variables' % (log[-1], r))
            if raw(pattern) != before:
                probs.append('%s modified its receiver' % log[-1])
            probs += check_instance(w0, r, log[-1])
            eng.event('type-variable-free')
        results.append(r)
        tracked.append(('result of %s' % log[-1], r, raw(r)))
        pool.append(r)
        for label, obj, snap0 in tracked:
            if raw(obj) != snap0:
                probs.append('after %s: %s was modified' % (log[-1], label))
                break
        if probs:
            break
    eng.notes['sample'] = dict(table=desc, history=log)
    eng.notes['observe'] = [str(r) for r in results]
    if probs:
        kind = probs[0].split(':')[0] if ':' in probs[0] else probs[0]
        return [Ob('substitution|%s|%s' % (_opkinds(log), desc_key(desc)), False,
                   dict(table=desc, history=log, problems=probs[:3]))]
    return [Ob('history-ok', True)]


def _variables(rt, acc=None):
    """type variables of a raw snapshot: name -> set of variance values seen"""
    acc = {} if acc is None else acc
    if isinstance(rt, tuple) and rt:
        if rt[0] == 'V':
            acc.setdefault(rt[1], set()).add(rt[2])
            _variables(rt[3], acc)
        elif rt[0] == 'P':
            for x in rt[2]:
                _variables(x, acc)
        elif rt[0] == 'W':
            _variables(rt[2], acc)
    return acc


def _unwrap(a):
    while a[0] == 'W' and a[2] is not None:
        a = a[2]
    return a


def _opkinds(log):
    return '>'.join(l.split('(')[0].split('.')[-1] for l in log)


def desc_key(d):
    return ';'.join('%s' % d[k] for k in ('G', 'H', 'K'))


FUNCS = [tp.TypeConstructor.new, tp.perform_type_substitution, tp.substitute_type_args, tp._get_type_substitution,
         tp.substitute_type, tp.ParameterizedType.__init__, tp.ParameterizedType.to_variance_free,
         tp.ParameterizedType.to_type_variable_free, tp._to_type_variable_free]
OUT = ('constructors with more than 2 parameters; nesting deeper than the shapes listed; histories longer than K; '
       'TypeUpdater (mutating by design, not named by the property); the solver only enumerates selectors here '
       '(bounded exhaustive exploration)')


def jobs(tier):
    out = []
    allt, diag = list(range(25)), [0, 6, 12, 18, 24]
    plan = [(1, 4, allt), (2, 0, diag)] if tier == 'quick' else [(1, 4, allt), (2, 1, allt), (3, 0, [12])]
    for K, extra, nt in plan:
        out.append(Job('history-K%d-pool%d-tables%d' % (K, 3 + extra, len(nt)), h_history,
                       dict(K=K, pool_extra=extra, ntables=nt), split_depth=3,
                       functions=FUNCS, require_events=['new', 'substitute', 'type-variable-free'] +
                       (['variance-free'] if K > 1 else []), budget_s=2400, crosscheck_every=500,
                       bounds='class tables F<v Z>, G<X[:A]> : %s, H<Y> : %s, K<U, V : %s> : %s; histories of %d '
                              'operations (new / substitute_type / to_variance_free / to_type_variable_free) whose '
                              'arguments are drawn from a pool of %d base types and all earlier results (aliasing); table '
                              'indices %s of the 25 G x H supertype-shape combinations'
                              % (G_SUPS, H_SUPS, K_BOUNDS, K_SUPS, K, 3 + extra, nt), outside=OUT))
    return out


META = dict(
    level='other',
    technique='bounded symbolic exploration (selectors and operation histories as solver integers) of the real '
              'instantiation/substitution functions vs independent substitution on structural snapshots; deep '
              'before/after snapshots for non-mutation',
    assumptions=['reference substitution World.subst/direct_supers in vlib/ref.py'],
)


def mutants():
    out = []
    orig = tp.TypeConstructor.new

    def bad_new(self, type_args):
        type_map = {tp_: type_args[i] for i, tp_ in enumerate(self.type_parameters)}
        type_con = tp.perform_type_substitution(self, type_map)
        etype = tp.ParameterizedType(type_con, type_args)
        self.supertypes = type_con.supertypes          # leaks the substituted supertypes into the definition
        return etype
    out.append(('new() leaks substituted supertypes into the definition',
                lambda: setattr(tp.TypeConstructor, 'new', bad_new), lambda: setattr(tp.TypeConstructor, 'new', orig)))
    orig_gs = tp._get_type_substitution

    def bad_gs(etype, type_map, cond=lambda t: t.has_type_variables()):
        if etype.is_wildcard() and etype.bound is not None:
            return etype                                # forgets wildcard bounds
        return orig_gs(etype, type_map, cond)
    out.append(('substitution skips wildcard bounds',
                lambda: setattr(tp, '_get_type_substitution', bad_gs),
                lambda: setattr(tp, '_get_type_substitution', orig_gs)))
    return out
