"""C05 (unit contracts) -- see vlib/genunits.py: generator units run under a symbolic RNG on small
symbolic scopes with the recursive generate_expr replaced by a contract stub; this module selects
the obligations tagged C05."""
from vlib.runner import Job
from vlib import genunits as U
from vlib import genunits_cls as UC
from vlib.symex import Ob

ASPECT = 'C05'
import os

from src import utils
from vlib.runner import REPO


def h_identifiers(eng, lang):
    """finite data obligation: after remove_reserved_words(lang) no word of the pool becomes a reserved word of
    the language through the case mapping gen_identifier applies (lower / capitalize)"""
    r = object.__new__(utils.RandomUtils)      # no __init__: the module-level name `random` is the singleton by now
    # the class-level pool is a random sample of the word list: check the whole list
    allwords = set(utils.read_lines(os.path.join(utils.RandomUtils.resource_path, 'words')))
    reserved = utils.get_reserved_words(utils.RandomUtils.resource_path, lang)
    r.INITIAL_WORDS = set(allwords)
    r.WORDS = set(allwords)
    r.remove_reserved_words(lang)
    left = set(r.INITIAL_WORDS)
    bad = sorted(w for w in left if w in reserved or w.lower() in reserved or w.capitalize() in reserved)
    eng.event('identifiers')
    eng.notes['sample'] = dict(language=lang, pool=len(allwords), reserved=len(reserved), clashes=bad[:8])
    obs = [Ob('identifiers|never-reserved-after-case-mapping|%s' % lang, not bad,
              dict(language=lang, clashes=bad[:10], example=(bad[0].capitalize() if bad else None)))]
    # the driver's history: reserved words removed once at start-up, the pool reset before every program
    def clashes(pool):
        return sorted(w for w in pool if w in reserved or w.lower() in reserved or w.capitalize() in reserved)
    for step in ('reset', 'reset-again'):
        r.reset_word_pool()
        bad2 = clashes(r.WORDS)
        obs.append(Ob('identifiers|never-reserved-after-%s|%s' % (step, lang), not bad2,
                      dict(language=lang, history='remove_reserved_words; ' + step, clashes=bad2[:10])))
    return obs


def h_unique(eng):
    """word() never hands out the same identifier twice between two resets of the pool (real RandomUtils.word on a
    reduced pool; the choice among the remaining words is symbolic)"""
    r = object.__new__(utils.RandomUtils)
    r.INITIAL_WORDS = {'aa', 'bb', 'cc', 'dd', 'ee'}
    r.WORDS = set(r.INITIAL_WORDS)

    class R:
        def choice(self, seq):
            seq = sorted(seq)
            return seq[eng.choice_index(len(seq), 'word')]
    r.r = R()
    got = [r.word() for _ in range(4)]
    eng.event('unique')
    eng.notes['sample'] = dict(words=got)
    return [Ob('identifiers|unique', len(set(got)) == 4 and not (set(got) & r.WORDS), dict(words=got))]


def h_type_param_names(eng, lang):
    """gen_type_params: the names of the type parameters of one declaration are pairwise different and differ from the
    type variables already in scope (the blacklist handed in by the callers)"""
    from vlib.props.C17 import make_generator
    from vlib.symrandom import installed, config
    from src.ir import ast, types as tp
    count = int(eng.fresh_int(0, 3, 'count'))
    for_function = bool(eng.fresh_bool('for_function'))
    outer = bool(eng.fresh_bool('type_variable_in_scope'))
    g = make_generator(lang, False, True)
    g.namespace = ast.GLOBAL_NAMESPACE + ('Cls',)
    if outer:
        # the enclosing class declares a type variable named as caps() would name the next one
        g.context.add_type(g.namespace, 'A', tp.TypeParameter('A'))
    g.namespace = g.namespace + ('meth',)
    case = dict(unit='gen_type_params', language=lang, count=count or None, for_function=for_function, type_variable_in_scope=outer)
    with installed(eng, max_sym_draws=4), config(limits__max_type_params=3, prob__bounded_type_parameters=0.0):
        tps = g.gen_type_params(count=count or None, for_function=for_function, blacklist=g._get_type_variable_names())
    names = [t.name for t in tps]
    case['result'] = names
    eng.event('type-params')
    if len(names) >= 2:
        eng.event('two-or-more')
    eng.notes['sample'] = case
    return [Ob('type-parameters|names-pairwise-different', len(names) == len(set(names)), case),
            Ob('type-parameters|names-differ-from-the-type-variables-in-scope', not (outer and 'A' in names), case)]


def jobs(tier):
    out = []
    langs = ['java', 'kotlin'] if tier == 'quick' else U.LANGS
    units = ['gen_variable', 'gen_assignment', 'gen_new', 'gen_variable_decl', 'generate_expr', 'gen_field_access',
             'gen_func_call', 'gen_lambda', 'gen_is_expr', 'gen_matching_func', 'gen_class_decl',
             'gen_equality_expr', 'gen_logical_expr', 'gen_comparison_expr', 'gen_array_expr', 'gen_func_call_ref', 'gen_func_ref']
    for lang in langs:
        for unit in units:
            extra = U.unit_params(unit, tier)
            out.append(Job('%s-%s' % (unit, lang), U.harness, dict(lang=lang, unit=unit, aspect=ASPECT, **extra),
                           split_depth=6, functions=U.FUNCS[unit], stubs=U.STUBS, require_events=['unit:%s' % unit],
                           budget_s=2400, crosscheck_every=500, bounds=U.unit_bounds(extra), outside=U.OUT))
    from src.generators.generator import Generator
    for lang in langs:
        out.append(Job('type-parameter-names-%s' % lang, h_type_param_names, dict(lang=lang), split_depth=4,
                       functions=[Generator.gen_type_params], require_events=['type-params', 'two-or-more'], budget_s=600,
                       stubs=['src.utils.random -> symbolic RNG; caps(blacklist): the first letter not blacklisted'],
                       bounds='count in {None, 1..3}, for_function and a pre-existing type variable in scope symbolic; '
                              'max_type_params = 3; every RNG outcome of the first 4 draws', outside=U.OUT))
    out.append(Job('identifiers-unique', h_unique, {}, serial=True, functions=[utils.RandomUtils.word],
                   require_events=['unique'], bounds='4 draws from a 5-word pool, every choice', outside=U.OUT))
    for lang in U.LANGS:
        out.append(Job('identifiers-%s' % lang, h_identifiers, dict(lang=lang), serial=True, crosscheck_every=0,
                       functions=[utils.RandomUtils.remove_reserved_words, utils.RandomUtils.word],
                       require_events=['identifiers'],
                       bounds='the whole word list x the keyword file of %s x {as is, lower, capitalize}' % lang,
                       outside=U.OUT))
    out += UC.jobs(ASPECT, tier, langs)
    return out


META = dict(
    level='other',
    technique='assume-guarantee unit contracts: bounded symbolic execution of generator units under a symbolic RNG with a '
              'contract stub for generate_expr; scoping / mutability / instantiability obligations; finite data obligation on the identifier pool',
    assumptions=['own scope resolution over the context tables (vlib/genunits.resolve)', 'composition is a paper argument'],
)


def mutants():
    from src.generators.generator import Generator
    out = []
    orig = Generator._get_assignable_vars

    def bad(self):
        saved = self._inside_java_lambda
        self._inside_java_lambda = False          # forgets that captured variables are effectively final
        try:
            return orig(self)
        finally:
            self._inside_java_lambda = saved
    out.append(('assignment to captured variables inside a java lambda', lambda: setattr(Generator, '_get_assignable_vars', bad),
                lambda: setattr(Generator, '_get_assignable_vars', orig)))
    return out
