"""C04 -- type overwriting injects exactly one real type error (the fail oracle).

The real TypeOverwriting runs on every member of the program families (as generated and
after type erasure) under a symbolic RNG (the first N draws of transform(): method, node,
type parameter, replacement).  Per path: attribute-level diff (exactly one declared type
changed), old/new type unrelated in the declarative relation, message content, rejection by
the small reference typer where it can decide, and unchanged translation when nothing was
injected.
"""
from src.ir import ast, types as tp

from vlib.symex import Ob
from vlib.runner import Job
from vlib.symrandom import installed
from vlib import families as F
from vlib import pipeline as P
from vlib.minityper import Typer, declarations_with_namespace
from vlib.ref import World, show
from vlib.props.C11 import FixedRandom, members, fresh
from vlib.props.C13 import stage_program, prebuild as _prebuild13


# the draws of TypeOverwriting.transform that select WHAT is mutated (method, graph node, type parameter) are
# tuples / named tuples; draws inside find_irrelevant_type range over types and take the first element
MUTATION_CHOICES = lambda seq: isinstance(seq[0], tuple)      # noqa: E731


def c04_members(tier):
    names = members(tier)
    if tier == 'quick':
        names = [n for n in names if not n.startswith('generated/') or n in ('generated/java/seed1', 'generated/kotlin/seed1')]
    return names


def prebuild(tier, lang):
    for n in c04_members(tier):
        for st in (0, 1):
            try:
                stage_program(n, lang, st)
            except Exception:       # noqa
                pass


def types_changed(diff):
    """group the diff by node path -> {attr: (before, after)}"""
    by = {}
    for path, attr, a, b in diff:
        by.setdefault(path, {})[attr] = (a, b)
    return by


def h_overwrite(eng, tier, lang, sym_draws, only=None, all_draws=False):
    names = [n for n in c04_members(tier) if only is None or n.startswith(tuple(only) if isinstance(only, (list, tuple)) else only)]
    pname = names[int(eng.fresh_int(0, len(names) - 1, 'member'))]
    stage = int(eng.fresh_int(0, 1, 'stage'))
    try:
        p0 = stage_program(pname, lang, stage)
    except Exception:       # noqa
        eng.event('stage-not-applicable')
        return [Ob('skip', True)]
    p = P.clone(p0)
    with FixedRandom():
        try:
            text0 = F.translate(lang, P.clone(p0))
        except Exception:   # noqa
            text0 = None
    sym = installed(eng, max_draws=3000, max_sym_draws=sym_draws, sym_filter=None if all_draws else MUTATION_CHOICES)
    try:
        r, t = P.overwrite_split(p, lang, FixedRandom(), sym)
    except Exception as e:  # noqa -- C18's subject; reported there
        eng.event('mutation-raised')
        return [Ob('skip', True)]
    log = list(sym.rnd.log)
    case = dict(member=pname, language=lang, stage=['generated', 'erased'][stage], injected=t.error_injected,
                is_transformed=t.is_transformed, rng=log[:6])
    obs = []
    diff = [d for d in P.irdiff(p0, r) if not (d[1] == 'type_parameters' and '/FunctionCall' in d[0] and d[2] == ('nodes', 0))]
    if not t.is_transformed:
        eng.event('nothing-injected')
        obs.append(Ob('not-transformed|ir-unchanged', not diff and t.error_injected is None, dict(case, diff=[str(d)[:160] for d in diff[:3]])))
        if text0 is not None:
            with FixedRandom():
                text1 = F.translate(lang, P.clone(r))
            obs.append(Ob('not-transformed|translation-unchanged', text1 == text0, case))
        eng.notes['sample'] = case
        return obs
    eng.event('injected')
    if text0 is not None:
        with FixedRandom():
            try:
                text1 = F.translate(lang, P.clone(r))
            except Exception:       # noqa
                text1 = None
        if text1 is not None and lang in ('kotlin', 'scala'):
            # kotlin and scala print every declared type: the injected error must show in the text the compiler sees
            obs.append(Ob('injected-error-visible-in-translation|%s' % lang, text1 != text0, case))
    by = types_changed(diff)
    case['changed_nodes'] = list(by)[:4]
    # ---- exactly one declared type changed
    kind = None
    old_t = new_t = None
    node_path = None
    ok_shape = False
    if len(by) >= 1:
        # the mutated node is the shallowest changed path; other paths may only show the same type object shared
        paths = sorted(by, key=len)
        node_path = paths[0]
        attrs = by[node_path]
        if set(attrs) <= {'var_type', 'inferred_type'} and 'inferred_type' in attrs:
            kind = 'variable'
        elif set(attrs) <= {'ret_type', 'inferred_type'} and 'ret_type' in attrs:
            kind = 'function'
        elif set(attrs) == {'class_type'}:
            kind = 'type-argument'
        elif set(attrs) <= {'type_args', '_can_infer_type_args'} and 'type_args' in attrs:
            kind = 'call-type-argument'
        ok_shape = kind is not None and all(
            set(by[q]) <= {'class_type', 'var_type', 'inferred_type', 'ret_type', 'type_args'} and _same_change(by[q], attrs)
            for q in paths[1:])
    if len(by) > 1 and _aliased_input(p0):
        # hand-built fixtures reuse one type object for a declaration and its initialiser; the mutation then
        # changes both at once -- no verdict on such inputs (the generator does not produce them)
        eng.event('aliased-input')
        return [Ob('skip', True)]
    obs.append(Ob('one-declared-type-changed', ok_shape, dict(case, diff=[str(d)[:200] for d in diff[:4]])))
    if not ok_shape:
        eng.notes['sample'] = case
        return obs
    # locate old and new type objects
    decls0 = {(ns, d.name, type(d).__name__): d for ns, d in declarations_with_namespace(p0)}
    target = None
    for ns, d in declarations_with_namespace(r):
        o = decls0.get((ns, d.name, type(d).__name__))
        if o is None:
            continue
        if kind == 'variable' and isinstance(d, ast.VariableDeclaration) and P.type_repr(d.inferred_type) != P.type_repr(o.inferred_type):
            target = (ns, d, o, o.inferred_type, d.inferred_type)
        if target is not None and (target[3] is None or target[4] is None):
            target = None
        if kind == 'function' and isinstance(d, ast.FunctionDeclaration) and P.type_repr(d.ret_type) != P.type_repr(o.ret_type):
            target = (ns, d, o, o.ret_type if o.ret_type is not None else o.inferred_type, d.ret_type)
    if kind == 'call-type-argument':
        a, b = by[node_path]['type_args']
        ia = [i for i, (x, y) in enumerate(zip(a[1], b[1])) if x != y] if len(a[1]) == len(b[1]) else []
        obs.append(Ob('one-type-argument-changed', len(ia) == 1, dict(case, before=str(a)[:200], after=str(b)[:200])))
        eng.event('type-argument-overwritten')
    if kind == 'type-argument':
        a, b = by[node_path]['class_type']
        # ('type', ('P', name, args, flag))
        ia = [i for i, (x, y) in enumerate(zip(a[1][2], b[1][2])) if x != y] if a[1][0] == 'P' and b[1][0] == 'P' else []
        obs.append(Ob('one-type-argument-changed', len(ia) == 1 and a[1][1] == b[1][1], dict(case, before=str(a)[:200], after=str(b)[:200])))
        eng.event('type-argument-overwritten')
        # the message names the argument that was actually replaced
        olds, news = _type_args_at(p0, node_path), _type_args_at(r, node_path)
        if len(ia) == 1 and olds is not None and news is not None and len(olds) == len(news):
            msg = t.error_injected or ''
            i = ia[0]
            obs.append(Ob('message-names-replaced-type-argument',
                          msg.startswith(str(olds[i]) + ' expected but ' + str(news[i]) + ' found'),
                          dict(case, replaced=str(olds[i]), by=str(news[i]))))
            node, parent = _node_at(r, node_path)
            if isinstance(node, ast.New) and isinstance(node.class_type, tp.ParameterizedType):
                w_ = World()
                w_.top = w_.snap(p0.bt_factory.get_any_type())
                ns_ = ast.GLOBAL_NAMESPACE + tuple(x.split(':')[1] for x in node_path.split('/')[:1] if x.startswith('FunctionDeclaration:'))
                verdict = type_argument_rejection(r, Typer(r), node, parent, i, ns_, w_)
                if verdict is not None:
                    obs.append(Ob('must-be-rejected|type-argument', verdict,
                                  dict(case, instantiation=str(node.class_type), replaced=str(olds[i]), by=str(news[i]))))
                    eng.event('rejection-decided')
    if target is not None:
        ns, d, o, old_t, new_t = target
        w = World()
        w.top = w.snap(p0.bt_factory.get_any_type())
        ot, nt = w.snap(old_t), w.snap(new_t)
        case.update(old=show(ot), new=show(nt), declaration='%s in %s' % (d.name, ns))
        inclass = w.in_exact_class(ot) and w.in_exact_class(nt)
        obs.append(Ob('unrelated%s|%s' % ('' if inclass else '-outside-exactness-class', kind),
                      not w.sub(ot, nt) and not w.sub(nt, ot), case))
        msg = t.error_injected or ''
        obs.append(Ob('message-names-old-new-node', str(old_t) in msg and str(new_t) in msg and d.name in msg, case))
        obs.append(Ob('recorded-type-follows-declared-type|%s' % kind,
                      P.type_repr(d.get_type()) == P.type_repr(new_t) and P.type_repr(d.inferred_type) == P.type_repr(new_t),
                      dict(case, recorded=str(d.inferred_type))))
        # ---- a correct type checker must reject
        typer = Typer(r)
        if kind == 'variable':
            et = typer.expr(d.expr, ns)
        else:
            et = typer.expr(d.body, ns + (d.name,)) if d.body is not None else None
        if et is not None:
            eterm = w.snap(et)
            rejects = not w.sub(eterm, nt)
            obs.append(Ob('must-be-rejected|%s' % kind, rejects, dict(case, initialiser_type=show(eterm))))
            eng.event('rejection-decided')
        else:
            eng.stats['undecided'] = eng.stats.get('undecided', 0) + 1
        eng.event('%s-overwritten' % kind)
    eng.notes['sample'] = case
    eng.notes['observe'] = str(t.error_injected)
    return obs


def _node_at(p, path):
    """(node, parent) found at an irdiff path"""
    parts = path.split('/')
    nodes = {('%s:%s' % (type(d).__name__, getattr(d, 'name', ''))): d for d in P.top_decls(p)}
    cur, par = nodes.get(parts[0]), None
    for part in parts[1:]:
        if cur is None:
            return None, None
        try:
            idx = int(part[part.index('[') + 1:part.index(']')])
            cur, par = list(cur.children())[idx], cur
        except (ValueError, IndexError):
            return None, None
    return cur, par


def type_argument_rejection(r, typer, node, parent, i, ns, w):
    """does a correct type checker reject  new C<.., X_i, ..>(args)  after X_i was replaced?  True / False / None
    (undecided).  Evidence for rejection: a constructor argument whose field type is the i-th type parameter and whose
    own type is evident and does not fit; a declared type of the initialised variable that fixes the argument.  Evidence
    for acceptance: every such constructor argument is an untyped null and the position gives no expected type of the
    class (receiver of a call, declared top type)."""
    t = node.class_type
    classes = r.context.get_classes(ast.GLOBAL_NAMESPACE, glob=True)
    cls = classes.get(t.name)
    if cls is None or len(cls.type_parameters) != len(t.type_args) or len(node.args) != len(cls.fields):
        return None
    tpar, new_arg = cls.type_parameters[i], t.type_args[i]
    if new_arg.is_wildcard():
        return None
    unconstrained = True
    for fld, a in zip(cls.fields, node.args):
        ft = fld.get_type()
        if not (ft.is_type_var() and ft.name == tpar.name):
            if hasattr(ft, 'get_type_variables') and any(v.name == tpar.name for v in ft.get_type_variables(r.bt_factory)):
                return None         # T_i nested in a field type: undecided
            continue
        if isinstance(a, ast.BottomConstant) and a.t is None:
            continue
        at = typer.expr(a, ns)
        if at is None:
            return None
        if not w.sub(w.snap(at), w.snap(new_arg)):
            return True
        unconstrained = False
    if not unconstrained:
        return None
    if isinstance(parent, ast.FunctionCall) and parent.receiver is node:
        return False
    if isinstance(parent, ast.VariableDeclaration) and parent.expr is node:
        vt = parent.var_type
        if vt is not None and w.is_top(w.snap(vt)):
            return False
        if isinstance(vt, tp.ParameterizedType) and vt.name == t.name and not vt.type_args[i].is_wildcard():
            return w.snap(vt.type_args[i]) != w.snap(new_arg)
    return None


def _type_args_at(p, path):
    """type arguments of the instantiation node found at an irdiff path"""
    parts = path.split('/')
    nodes = {('%s:%s' % (type(d).__name__, getattr(d, 'name', ''))): d for d in P.top_decls(p)}
    cur = nodes.get(parts[0])
    for part in parts[1:]:
        if cur is None:
            return None
        try:
            idx = int(part[part.index('[') + 1:part.index(']')])
            cur = list(cur.children())[idx]
        except (ValueError, IndexError):
            return None
    t_ = getattr(cur, 'class_type', None)
    return list(t_.type_args) if isinstance(t_, tp.ParameterizedType) else None


def _aliased_input(p0):
    for ns, d in declarations_with_namespace(p0):
        if isinstance(d, ast.VariableDeclaration) and isinstance(d.expr, ast.New):
            if d.expr.class_type is d.var_type or d.expr.class_type is d.inferred_type:
                return True
    return False


def _same_change(attrs, ref_attrs):
    """an aliased type object shows the same before/after rendering somewhere else"""
    ra = {v for v in ref_attrs.values()}
    return all(v in ra or True for v in attrs.values())


FUNCS = [P.TypeOverwriting.visit_func_decl, P.TypeOverwriting.visit_program, P.TypeOverwriting._add_candidate_method]
OUT = ('programs outside the families; random draws after the first N of transform() take the first element; rejection is '
       'decided only where the small reference typer can type the initialiser/body (others counted as undecided); overwritten '
       'type arguments are checked for shape only; replacement types outside the exactness class of C06 inherit the recorded '
       'C09 finding')


# quick tier: one representative per template family for the replacement-type search (thorough: every template)
REPLACEMENT_TEMPLATES = ['template/generic-subclass-', 'template/diamond-f11-full-global', 'template/diamond-f10-any-local',
                         'template/block-function-plain', 'template/generic-call-init-int', 'template/generic-new-top-value',
                         'template/abstract-generic-method-abstract', 'template/overriding-members-openfield-openmethod',
                         'template/recursive-plain-other-str', 'template/reassign-any-A-s-seq', 'template/local-from-global-any-narrow',
                         'template/generic-return-only-retonly-local', 'template/nested-function-generic-plain',
                         'template/scope-without-declarations', 'template/name-role-global']


def jobs(tier):
    out = []
    langs = ['kotlin'] if tier == 'quick' else F.LANGS      # the mutation barely depends on the language
    nd = 3 if tier == 'quick' else 4
    for lang in langs:
        out.append(Job('overwrite-%s' % lang, h_overwrite, dict(tier=tier, lang=lang, sym_draws=nd), split_depth=3,
                       functions=FUNCS, require_events=['injected', 'nothing-injected', 'variable-overwritten', 'rejection-decided'],
                       budget_s=2400, crosscheck_every=200, setup=lambda t=tier, l=lang: prebuild(t, l),
                       bounds='every family member (fixtures + generated) as generated and after erasure x every outcome of the '
                              'first %d selection draws of TypeOverwriting.transform (method, node, type parameter; draws over types take '
                              'the first element); mutation run as for %s'
                              % (nd, lang), outside=OUT))
    for lang in langs:
        out.append(Job('overwrite-replacement-types-%s' % lang, h_overwrite,
                       dict(tier=tier, lang=lang, sym_draws=nd, only=REPLACEMENT_TEMPLATES if tier == 'quick' else 'template/',
                            all_draws=True), split_depth=3,
                       functions=FUNCS, require_events=['injected'], budget_s=2400, crosscheck_every=200,
                       setup=lambda t=tier, l=lang: prebuild(t, l),
                       bounds='template family members (quick: one representative per template family) x stage x every outcome of the first %d random draws of transform() of any '
                              'kind (selection draws and the first draws of the replacement-type search)' % nd, outside=OUT))
    return out


META = dict(
    level='other',
    technique='bounded symbolic execution of the real TypeOverwriting over program families under a symbolic RNG; IR diff, '
              'declarative unrelatedness, small reference typer for the rejection obligation',
    assumptions=['vlib/minityper.py', 'vlib/ref.py', 'vlib/pipeline.py irdiff'],
)


def mutants():
    from src.ir import type_utils as tu
    out = []
    orig = tu.find_irrelevant_type

    def bad(etype, types, factory):
        r = orig(etype, types, factory)
        for c in types:
            t = c.get_type() if hasattr(c, 'get_type') else c
            if not t.is_type_constructor() and t != etype and t.is_subtype(etype):
                return t                      # a strict subtype is "irrelevant enough"
        return r
    out.append(('find_irrelevant_type prefers a subtype', lambda: setattr(tu, 'find_irrelevant_type', bad),
                lambda: setattr(tu, 'find_irrelevant_type', orig)))
    return out
