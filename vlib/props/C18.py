"""C18 -- the pipeline never fails internally (and the recursion measure of the generator).

Decided here:
 (a) no generator unit of vlib/genunits.py raises, for any RNG outcome, any symbolic scope and any value of the
     depth counter (symbolic) with max_depth = 2; together with the termination measure of the mutual recursion
     (depth restored on exit, every recursive request issued deeper than the unit was entered, only leaf
     generators at max depth, constructor arguments cut beyond twice max depth);
 (b) no pipeline stage (type erasure, type overwriting under a symbolic RNG, translation to the program's own
     language at every stage) raises on the members of the program families.
Not decided: termination / nesting bound of whole Generator.generate() runs (argued from the measure in (a)),
wall-clock timeouts of the visitors.
"""
from vlib.runner import Job
from vlib.symex import Ob
from vlib.symrandom import installed
from vlib import genunits as U
from vlib import genunits_cls as UC
from vlib import families as F
from vlib import pipeline as P
from vlib.props.C11 import FixedRandom, members, fresh

ASPECT = 'C18'


# the draws of TypeOverwriting.transform that select WHAT is mutated (method, graph node, type parameter) are
# tuples / named tuples; draws inside find_irrelevant_type range over types and take the first element
MUTATION_CHOICES = lambda seq: isinstance(seq[0], tuple)      # noqa: E731


def own_language(name, program):
    if name.startswith('generated/'):
        return name.split('/')[1]
    if name.startswith('template/groovy-'):
        return 'groovy'
    return 'kotlin'         # the hand-built fixtures use the kotlin built-ins


def h_pipeline(eng, tier, sym_draws):
    # generated programs only: the hand-built fixtures of the test suite are not all well-formed programs
    # (fixture/program1 constructs a class with an argument it has no field for)
    names = [n for n in members(tier) if (n.startswith('generated/') and (tier != 'quick' or n.endswith('seed1')))
             or n.startswith('template/')]
    pname = names[int(eng.fresh_int(0, len(names) - 1, 'member'))]
    p = fresh(pname)
    lang = own_language(pname, p)
    case = dict(member=pname, language=lang)
    obs = []

    def stage(name, fn):
        try:
            return fn(), None
        except RecursionError as e:
            obs.append(Ob('no-exception|%s|RecursionError' % name, False, dict(case, stage=name, exception=repr(e)[:200])))
            return None, e
        except Exception as e:      # noqa
            import traceback
            tb = traceback.extract_tb(e.__traceback__)[-1]
            obs.append(Ob('no-exception|%s|%s|%s:%s' % (name, type(e).__name__, tb.filename.split('/')[-1], tb.name), False,
                          dict(case, stage=name, exception=repr(e)[:300], where='%s:%d' % (tb.filename, tb.lineno))))
            return None, e
    part = int(eng.fresh_int(0, 1, 'part'))
    if part == 0:
        # deterministic stages, once per member
        with FixedRandom():
            stage('translate-generated', lambda: F.translate(lang, P.clone(p)))
            r1, e1 = stage('type-erasure', lambda: P.erase(P.clone(p), lang)[0])
            if r1 is not None:
                stage('translate-erased', lambda: F.translate(lang, P.clone(r1)))
            r2, _ = stage('type-overwriting-of-generated', lambda: P.overwrite(P.clone(p), lang)[0])
            if r2 is not None:
                stage('translate-overwritten-generated', lambda: F.translate(lang, r2))
    else:
        # the mutation of the erased program under a symbolic RNG (erased program built once per process)
        from vlib.props.C13 import stage_program
        try:
            r1 = stage_program(pname, lang, 1)
        except Exception:       # noqa -- reported by part 0
            r1 = None
        if r1 is not None:
            sym = installed(eng, max_draws=3000, max_sym_draws=3 if pname.startswith('template/') else sym_draws,
                            sym_filter=MUTATION_CHOICES)
            r2, e2 = stage('type-overwriting-of-erased', lambda: P.overwrite_split(r1, lang, FixedRandom(), sym)[0])
            if r2 is not None:
                with FixedRandom():
                    stage('translate-overwritten-erased', lambda: F.translate(lang, r2))
    eng.event('pipeline')
    eng.notes['sample'] = case
    obs.append(Ob('pipeline-done', True))
    return obs


def h_word_pool(eng, K, lang):
    """the identifier pool across programs: the real RandomUtils on a reduced pool, a symbolic history of
    word() / reset_word_pool() calls (hephaestus.gen_program resets the pool before every program); after a
    reset the whole initial pool is available again, and word() fails only on a genuinely exhausted pool"""
    from src import utils
    r = object.__new__(utils.RandomUtils)      # no __init__: the module-level name `random` is the singleton by now
    initial = {'zqa', 'zqb', 'zqc'}
    r.INITIAL_WORDS = set(initial)
    r.WORDS = set(initial)
    if bool(eng.fresh_bool('reserved_words_removed')):
        r.remove_reserved_words(lang)

    class R:
        def choice(self, seq):
            seq = sorted(seq)
            return seq[eng.choice_index(len(seq), 'word')]
    r.r = R()
    since_reset, hist, obs = 0, [], []
    for i in range(K):
        if bool(eng.fresh_bool('op%d_is_reset' % i)):
            r.reset_word_pool()
            since_reset = 0
            hist.append('reset')
            obs.append(Ob('identifier-pool|reset-restores-every-word', set(r.WORDS) == initial, dict(history=list(hist), pool=sorted(r.WORDS))))
        else:
            try:
                hist.append(r.word())
                since_reset += 1
            except Exception as e:      # noqa
                hist.append(repr(e)[:60])
                obs.append(Ob('no-exception|identifier-pool|%s' % type(e).__name__, since_reset >= len(initial),
                              dict(history=list(hist), drawn_since_reset=since_reset)))
                break
    eng.event('word-pool')
    eng.notes['sample'] = dict(history=hist)
    obs.append(Ob('identifier-pool|history-done', True))
    return obs


def h_type_params_count(eng, lang):
    """gen_type_params for every requested count: no exception, and at least `count` type parameters (callers zip
    the result with the type variables of the expected type)"""
    from vlib.props.C17 import make_generator
    from vlib.symrandom import config
    count = int(eng.fresh_int(0, 4, 'count'))
    mtp = int(eng.fresh_int(1, 4, 'max_type_params'))
    # precondition (stated): the request fits the configured limit, or is the 4 of Function3<T1, T2, T3, R>
    if not (count <= mtp or count == 4):
        eng.event('type-params-count')
        return [Ob('type-params|outside-precondition', True)]
    for_function = bool(eng.fresh_bool('for_function'))
    g = make_generator(lang, False, True)
    case = dict(unit='gen_type_params', language=lang, count=count or None, max_type_params=mtp, for_function=for_function)
    obs = []
    with installed(eng, max_sym_draws=4) as rnd, config(limits__max_type_params=mtp, prob__bounded_type_parameters=0.5):
        try:
            tps = g.gen_type_params(count=count or None, for_function=for_function, blacklist=g._get_type_variable_names())
            obs.append(Ob('type-params|at-least-the-requested-count', len(tps) >= count, dict(case, result=[str(t) for t in tps])))
        except Exception as e:      # noqa
            obs.append(Ob('no-exception|gen_type_params|%s' % type(e).__name__, False, dict(case, exception=repr(e)[:200], rng=list(rnd.log)[:6])))
    eng.event('type-params-count')
    eng.notes['sample'] = case
    return obs


class _LoopBudget(Exception):
    pass


def h_processor_loop(eng, T):
    """the driver's transformation loop terminates: the real ProgramProcessor (schedule, can_transform, transform_program,
    get_transformations) under the real hephaestus.process_cp_transformations, with a stand-in transformation whose outcome
    (changed the program / changed nothing) is symbolic per application.  Every scheduled transformation is applied exactly
    once, whatever it reports."""
    import argparse
    from vlib.props.C15 import H
    from src.modules.processor import ProgramProcessor
    from src import utils
    n = int(eng.fresh_int(0, T, 'scheduled_transformations'))
    calls = []

    class StubTransformation:
        def __init__(self, program, language, logger, options):
            self.program = program
            self.is_transformed = False

        @classmethod
        def get_name(cls):
            return 'TypeErasure'

        def transform(self):
            calls.append(1)
            if len(calls) > 3 * T + 3:
                raise _LoopBudget()
            self.is_transformed = bool(eng.fresh_bool('transformation_changed_the_program'))

        def result(self):
            return self.program

        def preserve_correctness(self):
            return True
    args = argparse.Namespace(transformation_types=['TypeErasure'], transformations=n, transformation_schedule=None, log=False,
                              debug=False, language='kotlin', options={'TypeErasure': {}, 'Generator': {}}, replay=None,
                              name='sess', test_directory='/nonexistent-vcheck')
    saved_cp = ProgramProcessor.CP_TRANSFORMATIONS
    saved = (H.utils.translate_program, H.save_program, H.cli_args.keep_all)
    ProgramProcessor.CP_TRANSFORMATIONS = {'TypeErasure': StubTransformation}
    H.utils.translate_program = lambda translator, program: 'text'
    H.save_program = lambda program, text, path: None
    H.cli_args.keep_all = False
    case = dict(scheduled=n)
    obs = []
    try:
        from vlib.symrandom import installed as _inst
        with _inst(eng):
            proc = ProgramProcessor(1, args)
        try:
            H.process_cp_transformations(1, '/nonexistent-vcheck/d', H.TRANSLATORS['kotlin']('src.pkg', {}), proc, object(), 'pkg')
            done = True
        except _LoopBudget:
            done = False
        case.update(applications=len(calls), recorded=len(proc.get_transformations()))
        obs.append(Ob('driver-loop|terminates', done, case))
        if done:
            obs.append(Ob('driver-loop|every-scheduled-transformation-applied-exactly-once', len(calls) == n, case))
            obs.append(Ob('driver-loop|applied-transformations-recorded', len(proc.get_transformations()) == n and not proc.can_transform(), case))
    finally:
        ProgramProcessor.CP_TRANSFORMATIONS = saved_cp
        H.utils.translate_program, H.save_program, H.cli_args.keep_all = saved
    eng.event('driver-loop')
    if n and len(calls) >= 1:
        eng.event('driver-loop-with-transformations')
    eng.notes['sample'] = case
    return obs


OUT = ('termination and nesting bound of whole Generator.generate() runs (only the recursion measure of the units is decided); '
       'wall-clock timeouts of the visitors; programs outside the families; random draws after the first N of the mutation')


def jobs(tier):
    out = []
    langs = ['java', 'kotlin'] if tier == 'quick' else U.LANGS
    for lang in langs:
        for unit in ['gen_variable', 'gen_assignment', 'gen_conditional', 'gen_new', 'gen_variable_decl', 'generate_expr', 'gen_field_access',
             'gen_func_call', 'gen_lambda', 'gen_is_expr', 'gen_equality_expr', 'gen_logical_expr', 'gen_comparison_expr', 'gen_array_expr', 'gen_func_call_ref', 'gen_func_ref']:
            extra = U.unit_params(unit, tier, measure=True)
            out.append(Job('%s-%s' % (unit, lang), U.harness,
                           dict(lang=lang, unit=unit, aspect=ASPECT, max_depth=2, sym_depth=True, **extra),
                           split_depth=6, functions=U.FUNCS[unit], stubs=U.STUBS, require_events=['unit:%s' % unit],
                           budget_s=2400, crosscheck_every=500,
                           bounds=U.unit_bounds(extra) + '; depth counter symbolic in 1..6, max_depth = 2', outside=OUT))
    out += UC.jobs(ASPECT, tier, langs, units=('class_members',) if tier == 'quick' else ('class_members', 'func_decl'))
    from src import utils
    from src.generators.generator import Generator
    out.append(Job('identifier-pool-history', h_word_pool, dict(K=6 if tier == 'quick' else 8, lang='java'), split_depth=4,
                   functions=[utils.RandomUtils.word, utils.RandomUtils.reset_word_pool, utils.RandomUtils.remove_reserved_words],
                   require_events=['word-pool'], budget_s=600,
                   bounds='pool of 3 identifiers; every history of %d word() / reset_word_pool() calls, every choice of word'
                          % (6 if tier == 'quick' else 8), outside=OUT))
    for lang in langs:
        out.append(Job('type-params-count-%s' % lang, h_type_params_count, dict(lang=lang), split_depth=4,
                       functions=[Generator.gen_type_params], require_events=['type-params-count'], budget_s=600,
                       stubs=['src.utils.random -> symbolic RNG (first 4 draws; later draws take the first element)'],
                       bounds='count in {None, 1..4}, max_type_params in 1..4 with count <= max_type_params or count == 4 '
                              '(precondition: the request fits the limit, or is the Function3 special case)', outside=OUT))
    from src.modules.processor import ProgramProcessor
    out.append(Job('driver-transformation-loop', h_processor_loop, dict(T=3), split_depth=3,
                   functions=[ProgramProcessor.transform_program, ProgramProcessor.can_transform, ProgramProcessor.get_transformations,
                              ProgramProcessor._get_transformation_schedule],
                   require_events=['driver-loop', 'driver-loop-with-transformations'], budget_s=300,
                   stubs=['the transformation class -> stand-in whose outcome (changed / changed nothing) is symbolic per application',
                          'translate_program, save_program -> no-ops'],
                   bounds='0..3 scheduled transformations, every outcome of every application; loop budget 12 applications', outside=OUT))
    out.append(Job('pipeline-stages', h_pipeline, dict(tier=tier, sym_draws=1 if tier == 'quick' else 2), split_depth=2,
                   functions=[P.TypeErasure.visit_func_decl, P.TypeOverwriting.visit_func_decl], require_events=['pipeline'],
                   budget_s=2400, crosscheck_every=100, setup=lambda t=tier: members(t),
                   bounds='every generated family member and every template program (first 3 draws symbolic): translate / erase / translate / overwrite (first %d draws symbolic) / translate, '
                          'in the member\'s own language' % (1 if tier == 'quick' else 2), outside=OUT))
    return out


META = dict(
    level='other',
    technique='bounded symbolic execution: exception freedom and recursion measure of the generator units (symbolic RNG, '
              'symbolic depth counter, contract stub) + exception freedom of every pipeline stage over the program families',
    assumptions=['termination of whole generator runs is NOT decided (argued from the unit-level measure)'],
)


def mutants():
    from src.generators.generator import Generator
    out = []
    orig = Generator.gen_conditional

    def bad(self, etype, only_leaves=False, subtype=True):
        d = self.depth
        r = orig(self, etype, only_leaves, subtype)
        self.depth = d + 1          # forgets to restore the depth counter
        return r
    out.append(('gen_conditional leaks depth', lambda: setattr(Generator, 'gen_conditional', bad),
                lambda: setattr(Generator, 'gen_conditional', orig)))
    return out
