"""C18 -- the pipeline never fails internally (and the recursion measure of the generator).

Decided here:
 (a) no generator unit of vlib/genunits.py raises, for any RNG outcome, any symbolic scope and any value of the
     depth counter (symbolic) with max_depth = 2; together with the termination measure of the mutual recursion
     (depth restored on exit, every recursive request issued deeper than the unit was entered, only leaf
     generators at max depth, constructor arguments cut beyond twice max depth);
 (b) no pipeline stage (type erasure, type overwriting under a symbolic RNG, translation to the program's own
     language at every stage) raises on the members of the program families.
Not decided: termination / nesting bound of whole Generator.generate() runs (argued from the measure in (a)),
wall-clock timeouts of the visitors.
"""
from vlib.runner import Job
from vlib.symex import Ob
from vlib.symrandom import installed
from vlib import genunits as U
from vlib import families as F
from vlib import pipeline as P
from vlib.props.C11 import FixedRandom, members, fresh

ASPECT = 'C18'


# the draws of TypeOverwriting.transform that select WHAT is mutated (method, graph node, type parameter) are
# tuples / named tuples; draws inside find_irrelevant_type range over types and take the first element
MUTATION_CHOICES = lambda seq: isinstance(seq[0], tuple)      # noqa: E731


def own_language(name, program):
    if name.startswith('generated/'):
        return name.split('/')[1]
    return 'kotlin'         # the hand-built fixtures use the kotlin built-ins


def h_pipeline(eng, tier, sym_draws):
    # generated programs only: the hand-built fixtures of the test suite are not all well-formed programs
    # (fixture/program1 constructs a class with an argument it has no field for)
    names = [n for n in members(tier) if n.startswith('generated/') and (tier != 'quick' or n.endswith('seed1'))]
    pname = names[int(eng.fresh_int(0, len(names) - 1, 'member'))]
    p = fresh(pname)
    lang = own_language(pname, p)
    case = dict(member=pname, language=lang)
    obs = []

    def stage(name, fn):
        try:
            return fn(), None
        except RecursionError as e:
            obs.append(Ob('no-exception|%s|RecursionError' % name, False, dict(case, stage=name, exception=repr(e)[:200])))
            return None, e
        except Exception as e:      # noqa
            import traceback
            tb = traceback.extract_tb(e.__traceback__)[-1]
            obs.append(Ob('no-exception|%s|%s|%s:%s' % (name, type(e).__name__, tb.filename.split('/')[-1], tb.name), False,
                          dict(case, stage=name, exception=repr(e)[:300], where='%s:%d' % (tb.filename, tb.lineno))))
            return None, e
    part = int(eng.fresh_int(0, 1, 'part'))
    if part == 0:
        # deterministic stages, once per member
        with FixedRandom():
            stage('translate-generated', lambda: F.translate(lang, P.clone(p)))
            r1, e1 = stage('type-erasure', lambda: P.erase(P.clone(p), lang)[0])
            if r1 is not None:
                stage('translate-erased', lambda: F.translate(lang, P.clone(r1)))
            r2, _ = stage('type-overwriting-of-generated', lambda: P.overwrite(P.clone(p), lang)[0])
            if r2 is not None:
                stage('translate-overwritten-generated', lambda: F.translate(lang, r2))
    else:
        # the mutation of the erased program under a symbolic RNG (erased program built once per process)
        from vlib.props.C13 import stage_program
        try:
            r1 = stage_program(pname, lang, 1)
        except Exception:       # noqa -- reported by part 0
            r1 = None
        if r1 is not None:
            sym = installed(eng, max_draws=3000, max_sym_draws=sym_draws, sym_filter=MUTATION_CHOICES)
            r2, e2 = stage('type-overwriting-of-erased', lambda: P.overwrite_split(r1, lang, FixedRandom(), sym)[0])
            if r2 is not None:
                with FixedRandom():
                    stage('translate-overwritten-erased', lambda: F.translate(lang, r2))
    eng.event('pipeline')
    eng.notes['sample'] = case
    obs.append(Ob('pipeline-done', True))
    return obs


OUT = ('termination and nesting bound of whole Generator.generate() runs (only the recursion measure of the units is decided); '
       'wall-clock timeouts of the visitors; programs outside the families; random draws after the first N of the mutation')


def jobs(tier):
    out = []
    langs = ['java', 'kotlin'] if tier == 'quick' else U.LANGS
    for lang in langs:
        for unit in ['gen_variable', 'gen_assignment', 'gen_conditional', 'gen_new', 'gen_variable_decl', 'generate_expr', 'gen_field_access',
             'gen_func_call', 'gen_lambda', 'gen_is_expr']:
            extra = dict(nvars=0, with_nested=False) if unit in ('generate_expr', 'gen_func_call', 'gen_field_access', 'gen_lambda') \
                else dict(nvars=1, with_nested=(tier != 'quick'))
            if unit == 'gen_func_call':
                extra['sym_draws'] = 3 if tier == 'quick' else 5
            out.append(Job('%s-%s' % (unit, lang), U.harness,
                           dict(lang=lang, unit=unit, aspect=ASPECT, max_depth=2, sym_depth=True, **extra),
                           split_depth=6, functions=U.FUNCS[unit], stubs=U.STUBS, require_events=['unit:%s' % unit],
                           budget_s=2400, crosscheck_every=500,
                           bounds='as the C01 unit, with the depth counter symbolic in 1..6 and max_depth = 2', outside=OUT))
    out.append(Job('pipeline-stages', h_pipeline, dict(tier=tier, sym_draws=1 if tier == 'quick' else 2), split_depth=2,
                   functions=[P.TypeErasure.visit_func_decl, P.TypeOverwriting.visit_func_decl], require_events=['pipeline'],
                   budget_s=2400, crosscheck_every=100, setup=lambda t=tier: members(t),
                   bounds='every generated family member: translate / erase / translate / overwrite (first %d draws symbolic) / translate, '
                          'in the member\'s own language' % (1 if tier == 'quick' else 2), outside=OUT))
    return out


META = dict(
    level='other',
    technique='bounded symbolic execution: exception freedom and recursion measure of the generator units (symbolic RNG, '
              'symbolic depth counter, contract stub) + exception freedom of every pipeline stage over the program families',
    assumptions=['termination of whole generator runs is NOT decided (argued from the unit-level measure)'],
)


def mutants():
    from src.generators.generator import Generator
    out = []
    orig = Generator.gen_conditional

    def bad(self, etype, only_leaves=False, subtype=True):
        d = self.depth
        r = orig(self, etype, only_leaves, subtype)
        self.depth = d + 1          # forgets to restore the depth counter
        return r
    out.append(('gen_conditional leaks depth', lambda: setattr(Generator, 'gen_conditional', bad),
                lambda: setattr(Generator, 'gen_conditional', orig)))
    return out
