"""C08 -- instantiation helpers pick type arguments within bounds and allowed variance.

Lemma: _get_type_arg_variance with every input symbolic (declared variance, both choice
bits, presence of the map, both cfg.dis switches, in_bound, the RNG draw).
Bounded: _compute_type_variable_assignments / instantiate_type_constructor /
instantiate_parameterized_function under a symbolic RNG and symbolic switches on bounded,
chained and variant parameter lists; results judged by the declarative relation.
"""
import z3

from src.ir import types as tp, java_types as jt, type_utils as tu, ast
from src import utils

from vlib.symex import Ob, T, SymBool
from vlib.runner import Job
from vlib.symrandom import installed, config
from vlib.ref import World, show
from vlib import univ

VN = ['inv', 'co', 'contra']


class LazyChoices(dict):
    """variance_choices map whose entry for the parameter is a pair of solver booleans"""

    def __init__(self, present, pair, key):
        super().__init__()
        self.present, self.pair, self.key = present, pair, key

    def get(self, k, default=None):
        if k is self.key and self.present:
            return self.pair
        return default


def h_variance_lemma(eng):
    pv = int(eng.fresh_int(0, 2, 'declared'))
    mode = int(eng.fresh_int(0, 2, 'choices'))          # 0: None, 1: map without entry, 2: map with entry
    in_bound = bool(eng.fresh_bool('in_bound'))
    can_co, can_contra = eng.fresh_bool('can_co'), eng.fresh_bool('can_contra')
    dis_usv, dis_contra = eng.fresh_bool('dis_use_site_variance'), eng.fresh_bool('dis_contravariance')
    p = tp.TypeParameter('T', univ.VAR[pv])
    others = [tp.TypeParameter('U'), tp.TypeParameter('V', bound=p if in_bound else None)]
    choices = None if mode == 0 else LazyChoices(mode == 2, (can_co, can_contra), p)
    if bool(eng.fresh_bool('earlier_call_with_switches_enabled')):
        # the answer must not depend on calls made under other switch values earlier in the process
        with installed(eng), config(dis__use_site_variance=False, dis__use_site_contravariance=False):
            tu._get_type_arg_variance(tp.TypeParameter('T', univ.VAR[pv]), {}, [])
    with installed(eng), config(dis__use_site_variance=dis_usv, dis__use_site_contravariance=dis_contra):
        res = tu._get_type_arg_variance(p, choices, others)
    rv = res.value
    co = T(can_co) if mode == 2 else z3.BoolVal(True)
    contra = T(can_contra) if mode == 2 else z3.BoolVal(True)
    allowed_inv = z3.BoolVal(True)
    allowed_co = z3.And(mode != 0, not in_bound, z3.Not(T(dis_usv)), co, pv != 2)
    allowed_contra = z3.And(mode != 0, not in_bound, z3.Not(T(dis_usv)), z3.Not(T(dis_contra)), contra, pv != 1)
    want = [allowed_inv, allowed_co, allowed_contra][rv]
    eng.event('variance=%s' % VN[rv])
    case = dict(declared=VN[pv], choices=['None', 'no entry', 'entry'][mode], in_bound=in_bound, result=VN[rv])
    eng.notes['sample'] = case
    eng.notes['observe'] = rv
    return [Ob('variance-lemma|declared=%s,choices=%d,in_bound=%d,result=%s' % (VN[pv], mode, in_bound, VN[rv]),
               want, case)]


# --------------------------------------------------------------- bounded
def world_pool():
    Obj = jt.Object
    A = tp.SimpleClassifier('A', [Obj])
    B = tp.SimpleClassifier('B', [A])
    C = tp.SimpleClassifier('C', [Obj])
    Gx = tp.TypeParameter('X')
    G = tp.TypeConstructor('G', [Gx], [Obj])
    return Obj, A, B, C, G


SHAPES = ['T', 'T:A', 'T1,T2:T1', 'T1,T2:T1,T3:T2', 'T1,T2:G<T1>', 'out T1:A,T2:T1', 'in T1,T2', 'Function1',
          'T1:A,T2:T1', 'out T1,T2', 'T1,T2:G<out T1>', 'T1,T2:G<G<in T1>>', 'T1,T2:T1,T3:T1', 'T1,T2:G<T1>,T3:T1', 'T1,T2:G<T1>,T3:G<T2>']


def make_params(shape, A, G):
    if shape == 'T':
        return [tp.TypeParameter('T1')]
    if shape == 'T:A':
        return [tp.TypeParameter('T1', bound=A)]
    if shape == 'T1,T2:T1':
        t1 = tp.TypeParameter('T1')
        return [t1, tp.TypeParameter('T2', bound=t1)]
    if shape == 'T1:A,T2:T1':
        t1 = tp.TypeParameter('T1', bound=A)
        return [t1, tp.TypeParameter('T2', bound=t1)]
    if shape == 'T1,T2:T1,T3:T2':
        t1 = tp.TypeParameter('T1')
        t2 = tp.TypeParameter('T2', bound=t1)
        return [t1, t2, tp.TypeParameter('T3', bound=t2)]
    if shape == 'T1,T2:G<T1>':
        t1 = tp.TypeParameter('T1')
        return [t1, tp.TypeParameter('T2', bound=G.new([t1]))]
    if shape == 'T1,T2:G<out T1>':
        t1 = tp.TypeParameter('T1')
        return [t1, tp.TypeParameter('T2', bound=G.new([tp.WildCardType(t1, tp.Covariant)]))]
    if shape == 'T1,T2:G<G<in T1>>':
        t1 = tp.TypeParameter('T1')
        return [t1, tp.TypeParameter('T2', bound=G.new([G.new([tp.WildCardType(t1, tp.Contravariant)])]))]
    if shape == 'T1,T2:T1,T3:T1':
        t1 = tp.TypeParameter('T1')
        return [t1, tp.TypeParameter('T2', bound=t1), tp.TypeParameter('T3', bound=t1)]
    if shape == 'T1,T2:G<T1>,T3:T1':
        t1 = tp.TypeParameter('T1')
        return [t1, tp.TypeParameter('T2', bound=G.new([t1])), tp.TypeParameter('T3', bound=t1)]
    if shape == 'T1,T2:G<T1>,T3:G<T2>':
        t1 = tp.TypeParameter('T1')
        t2 = tp.TypeParameter('T2', bound=G.new([t1]))
        return [t1, t2, tp.TypeParameter('T3', bound=G.new([t2]))]
    if shape == 'out T1:A,T2:T1':
        t1 = tp.TypeParameter('T1', tp.Covariant, bound=A)
        return [t1, tp.TypeParameter('T2', bound=t1)]
    if shape == 'out T1,T2':
        return [tp.TypeParameter('T1', tp.Covariant), tp.TypeParameter('T2')]
    if shape == 'in T1,T2':
        return [tp.TypeParameter('T1', tp.Contravariant), tp.TypeParameter('T2')]
    if shape == 'Function1':
        return [tp.TypeParameter('A1'), tp.TypeParameter('R')]
    raise KeyError(shape)


def h_instantiate(eng, shape, api, pool_kind, caller_flags=False):
    Obj, A, B, C, G = world_pool()
    params = make_params(shape, A, G)
    name = 'Function1' if shape == 'Function1' else 'K'
    Kc = tp.TypeConstructor(name, params, [Obj])
    # pool of available types
    Dabs = ast.ClassDeclaration('Dabs', [], ast.ClassDeclaration.ABSTRACT)
    Dint = ast.ClassDeclaration('Dint', [], ast.ClassDeclaration.INTERFACE)
    Dreg = ast.ClassDeclaration('Dreg', [ast.SuperClassInstantiation(A, [])], ast.ClassDeclaration.REGULAR)
    Gdecl = ast.ClassDeclaration('G', [], ast.ClassDeclaration.REGULAR, type_parameters=[tp.TypeParameter('X')])
    pools = {
        'classes': [A, B, C],
        'mixed': [A, B, C, Dabs, Dint, Dreg, jt.IntegerType(primitive=True), G],
        'generic': [A, B, Gdecl],
    }
    pool = pools[pool_kind]
    # symbolic caller inputs
    pre = {}
    premode = int(eng.fresh_int(0, 3, 'pre'))      # 0 none, 1 first := B, 2 first := out B, 3 last := B
    if premode == 1:
        pre[params[0]] = B
    elif premode == 2:
        pre[params[0]] = tp.WildCardType(B, tp.Covariant)
    elif premode == 3:
        pre[params[-1]] = B
    vcmode = int(eng.fresh_int(0, 2, 'vc'))        # None / {} / first: (True, False)
    vc = None if vcmode == 0 else ({} if vcmode == 1 else {params[0]: (True, False)})
    dis_usv = bool(eng.fresh_bool('dis_use_site_variance'))
    dis_contra = bool(eng.fresh_bool('dis_contravariance'))
    # the caller's own switches of instantiate_type_constructor: 0 defaults, 1 disable_variance, 2 disable_variance_functions,
    # 3 enable_pecs=False
    flag = int(eng.fresh_int(0, 3, 'caller_flags')) if caller_flags else 0
    fkw = {1: dict(disable_variance=True), 2: dict(disable_variance_functions=True), 3: dict(enable_pecs=False)}.get(flag, {})
    w = World()
    w.top = w.snap(Obj)
    for t in (A, B, C, G, Dreg.get_type(), Dabs.get_type(), Dint.get_type()):
        w.snap(t)
    w.snap(Kc)
    log = []
    exc = None
    with installed(eng) as rnd, config(dis__use_site_variance=dis_usv, dis__use_site_contravariance=dis_contra):
        try:
            if api == 'constructor':
                res, tvm = tu.instantiate_type_constructor(Kc, list(pool), type_var_map=dict(pre) or None,
                                                           variance_choices=vc, **fkw)
                targs = list(res.type_args)
            elif api == 'compute':
                targs, tvm = tu._compute_type_variable_assignments(
                    params, tu._get_available_types(Kc, list(pool), True, primitives=False),
                    type_var_map=dict(pre) or None, variance_choices=vc)
            else:
                tvm = tu.instantiate_parameterized_function(params, list(pool), type_var_map=dict(pre) or None)
                targs = [tvm.get(p) for p in params]
        except (AssertionError, IndexError, KeyError, TypeError, AttributeError) as e:
            exc = e
        log = list(rnd.log)
    case = dict(shape=shape, api=api, pool=[str(x) for x in pool], pre={k.name: str(v) for k, v in pre.items()},
                variance_choices=None if vc is None else {k.name: v for k, v in vc.items()},
                use_site_variance_disabled=dis_usv, contravariance_disabled=dis_contra, rng=log[:12])
    key = 'shape=%s,api=%s,pool=%s,pre=%d,vc=%d,usv=%d,contra=%d' % (shape, api, pool_kind, premode, vcmode,
                                                                     dis_usv, dis_contra)
    if caller_flags:
        key += ',flags=%d' % flag
        case['caller_switches'] = fkw
    pecs = name == 'Function1' and api == 'constructor' and flag != 3
    if exc is not None:
        eng.event('exception')
        return [Ob('no-exception|%s|%s' % (type(exc).__name__, key), False, dict(case, exception=repr(exc)))]
    case['result'] = [str(a) for a in targs]
    obs = []
    obs.append(Ob('one-arg-per-param|' + key, len(targs) == len(params) and all(a is not None for a in targs)
                  and all(p in tvm for p in params), case))
    if not all(a is not None for a in targs):
        return obs
    terms = [w.snap(a) for a in targs]
    m = {p.name: (t[2] if t[0] == 'W' and t[2] is not None else t) for p, t in zip(params, terms)}
    for i, (p, a, t) in enumerate(zip(params, targs, terms)):
        # (c) no primitive, no bare constructor (also nested)
        bad = w.mentions(t, lambda x: x[0] == 'C' or x in w.primitive)
        obs.append(Ob('usable-type|%s,param=%d' % (key, i), not bad, case))
        # (b) within bound after substituting the other arguments
        proj_pre = [q.name for q, v in pre.items() if isinstance(v, tp.WildCardType)]
        if p.bound is not None and p not in pre and not (   # a pre-assigned argument is the caller's responsibility
                proj_pre and w.mentions(w.snap(p.bound), lambda x: x[0] == 'V' and x[1] in proj_pre)):
            bterm = w.subst(w.snap(p.bound), m)
            aterm = t
            skip = False
            if t[0] == 'W':
                if t[2] is None or t[1] == 2:
                    skip = True
                else:
                    aterm = t[2]
            if not skip:
                obs.append(Ob('within-bound|%s,param=%d' % (key, i), w.sub(aterm, bterm),
                              dict(case, param=p.name, argument=show(t), bound=show(bterm))))
        # (d) requested assignment kept (modulo a permitted projection)
        if p in pre:
            want = w.snap(pre[p])
            kept = t == want or (t[0] == 'W' and t[2] == want)
            obs.append(Ob('requested-kept|%s,param=%d' % (key, i), kept, dict(case, param=p.name)))
        # (e)(f) projections
        # a projection handed in by the caller (also when propagated to a parameter bounded by it) is the caller's
        is_proj = t[0] == 'W' and t not in [w.snap(v) for v in pre.values()]
        if is_proj:
            eng.event('projection')
            later_mentions = any(q.bound is not None and w.mentions(w.snap(q.bound), lambda x: x[0] == 'V' and x[1] == p.name)
                                 for q in params[i + 1:])
            obs.append(Ob('no-projection-on-mentioned-param|%s,param=%d' % (key, i), not later_mentions,
                          dict(case, param=p.name)))
            obs.append(Ob('projection-allowed|%s,param=%d' % (key, i),
                          api != 'function' and (vc is not None or pecs)
                          and flag != 1 and not (flag == 2 and name == 'Function1')
                          and not dis_usv
                          and not (t[1] == 2 and dis_contra)
                          and not (t[1] == 2 and p.is_covariant()) and not (t[1] == 1 and p.is_contravariant())
                          and not (not pecs and p in (vc or {}) and
                                   ((t[1] == 1 and not vc[p][0]) or (t[1] == 2 and not vc[p][1])))
                          and not (pecs and
                                   ((i < len(params) - 1 and t[1] == 1) or (i == len(params) - 1 and t[1] == 2))),
                          dict(case, param=p.name)))
    eng.notes['sample'] = case
    eng.notes['observe'] = case['result']
    eng.event('instantiated')
    return obs


FUNCS = [tu._get_type_arg_variance, tu._compute_type_variable_assignments, tu.instantiate_type_constructor,
         tu.instantiate_parameterized_function, tu._get_available_types, tu.update_type_var_bound_rec,
         tp.TypeParameter.has_bound_of]
STUBS = ['src.utils.random -> symbolic RNG (vlib/symrandom.py): every choice/bool/integer outcome explored',
         'cfg.dis.use_site_variance / use_site_contravariance -> symbolic values written into the real singleton']
OUT = ('more than 3 type parameters; pools beyond the three listed; bounds nested deeper than G<T1>; calls made by whole '
       'generator runs (only the shapes listed); contravariant projections are not checked against bounds (the '
       'statement names covariant ones)')


def jobs(tier):
    out = [Job('variance-lemma', h_variance_lemma, {}, serial=True, functions=[tu._get_type_arg_variance], stubs=STUBS,
               require_events=['variance=inv', 'variance=co', 'variance=contra'],
               bounds='declared variance x {no map, no entry, entry with two solver booleans} x in_bound x both switches '
                      '(solver booleans) x every RNG draw', outside=OUT)]
    shapes = SHAPES if tier == 'thorough' else ['T:A', 'T1,T2:T1', 'T1,T2:T1,T3:T2', 'T1,T2:G<T1>', 'out T1:A,T2:T1',
                                                'Function1', 'T1,T2:G<out T1>', 'T1,T2:G<G<in T1>>', 'T1,T2:T1,T3:T1',
                                                'T1,T2:G<T1>,T3:T1', 'T1,T2:G<T1>,T3:G<T2>']
    for shape in shapes:
        for api in ('constructor', 'function') + (('compute',) if tier == 'thorough' else ()):
            for pool_kind in (('classes', 'mixed', 'generic') if tier == 'thorough' else ('mixed',)):
                if shape == 'Function1' and api == 'function':
                    continue
                out.append(Job('inst-%s-%s-%s' % (shape.replace(',', '+').replace(':', '.').replace(' ', '_').replace('<', '(').replace('>', ')'), api, pool_kind),
                               h_instantiate, dict(shape=shape, api=api, pool_kind=pool_kind), split_depth=5,
                               functions=FUNCS, stubs=STUBS, require_events=['instantiated'], budget_s=1200,
                               crosscheck_every=100,
                               bounds='parameter list %s, pool %s, pre-assignment in {none, first:=B, first:=out B, last:=B}, '
                                      'variance choices in {None, {}, first:(True,False)}, both switches, every RNG outcome'
                                      % (shape, pool_kind), outside=OUT))
    for shape in ('Function1', 'T:A', 'T1,T2:T1'):
        out.append(Job('inst-%s-constructor-caller-switches' % shape.replace(',', '+').replace(':', '.'),
                       h_instantiate, dict(shape=shape, api='constructor', pool_kind='mixed', caller_flags=True), split_depth=5,
                       functions=FUNCS, stubs=STUBS, require_events=['instantiated'], budget_s=1200, crosscheck_every=100,
                       bounds='as inst-%s-constructor-mixed, additionally the caller passes one of {nothing, disable_variance, '
                              'disable_variance_functions, enable_pecs=False}' % shape, outside=OUT))
    # the instantiation helpers as the generator calls them: receivers and type arguments chosen by _gen_func_call /
    # _get_matching_class / _get_matching_objects (unit harness of vlib/genunits.py, obligations tagged C08)
    from vlib import genunits as GU
    for lang in (['java'] if tier == 'quick' else ['java', 'groovy', 'kotlin']):
        out.append(Job('generator-call-site-gen_func_call-%s' % lang, GU.harness,
                       dict(lang=lang, unit='gen_func_call', aspect='C08', nvars=0, with_nested=True,
                            sym_draws=3 if tier == 'quick' else 5),
                       split_depth=6, functions=GU.FUNCS['gen_func_call'], stubs=GU.STUBS, budget_s=2400, crosscheck_every=500,
                       require_events=['unit:gen_func_call'],
                       bounds='generator unit _gen_func_call on the symbolic scope of vlib/genunits.py (generic class with a generic '
                              'method, generic function with a bounded parameter, java pools include a primitive): type arguments of '
                              'receivers and calls are usable types within their bounds', outside=OUT))
    return out


META = dict(
    level='other',
    technique='symbolic lemma on _get_type_arg_variance (z3 booleans for switches/choices) + bounded symbolic execution '
              'of the instantiation helpers under a symbolic RNG, judged by the declarative relation',
    assumptions=['symbolic RNG contract (vlib/symrandom.py)', 'declarative relation vlib/ref.py'],
)


def mutants():
    out = []
    orig = tu._get_type_arg_variance

    def bad(t_param, variance_choices, other_type_params):
        if variance_choices is None:
            return tp.Invariant
        return orig(t_param, variance_choices, [])      # ignores "mentioned by a later bound"
    out.append(('_get_type_arg_variance ignores in_bound',
                lambda: setattr(tu, '_get_type_arg_variance', bad), lambda: setattr(tu, '_get_type_arg_variance', orig)))
    return out
