"""C16 -- the symbol table behaves like a scoped map.

The real `Context` is driven by a symbolic history of operations next to a
small reference map; afterwards every query of the public API is compared.
Operations, namespaces, names and value kinds are solver integers (n-ary
decisions); the reference is written from the property statement.
"""
from collections import OrderedDict

import src.ir.ast as ast            # noqa: F401  (must precede context: circular import)
from src.ir import context as ctxmod
from src.ir.context import Context
from src.ir import types as tp, java_types as jt

from vlib.symex import Ob
from vlib.runner import Job

G = ('global',)
NS_FULL = [G, G + ('f',), G + ('f', 'g'), G + ('C',), G + ('C', 'f'), G + ('f', 'lambda_0'),
           G + ('f', 'lambda_0', 'g'), G + ('f', 'g', 'f')]        # the last path repeats a component (a nested function named like an outer one)
NS_SMALL = [G, G + ('f',), G + ('C',), G + ('C', 'f')]
# one declaration kind per name (identifiers are unique within a scope, C05);
# type parameters and lambdas live in tables of their own and may reuse names
DECL_KIND = {'f': 'funcs', 'g': 'funcs', 'C': 'classes', 'x': 'vars', 'lambda_0': 'lambdas'}
# a name may also be declared under a second declaration kind in the same namespace (function and variable,
# class and function): the shared declaration table is keyed by name only
SECOND_KIND = {'f': 'vars', 'C': 'funcs'}
KINDS = ['types', 'funcs', 'lambdas', 'vars', 'classes']
ALLK = KINDS + ['decls']
DECLK = ('funcs', 'vars', 'classes')


def tables_for(name):
    """tables an operation on `name` may address"""
    k = DECL_KIND[name]
    if k == 'lambdas':
        return [k]
    return [k, 'types'] + ([SECOND_KIND[name]] if name in SECOND_KIND else [])


class Ref:
    """Reference scoped map, written from the statement of C16."""

    def __init__(self):
        self.t = {}                 # ns -> kind -> OrderedDict(name -> value)
        self.objs = []              # (obj, ns, name, kind) of every added non-None object
        self.removed = set()        # id(obj) explicitly removed
        self.unspec = set()         # id(obj) overwritten or dropped with its namespace
        self.cross_removed = set()  # id(obj) whose entry in the shared declaration table was removed through another kind

    def _tab(self, ns):
        if ns not in self.t:
            self.t[ns] = {k: OrderedDict() for k in ALLK}
        return self.t[ns]

    def add(self, ns, kind, name, v):
        tab = self._tab(ns)
        for k in ([kind, 'decls'] if kind in DECLK else [kind]):
            old = tab[k].get(name)
            if old is not None and old is not v:
                # overwritten in its own table: unspecified; overwritten only in the shared declaration
                # table by a declaration of another kind: it is still declared
                if k != 'decls' or tab[kind].get(name) is old or not any(
                        tab[kk].get(name) is old for kk in DECLK):
                    self.unspec.add(id(old))
            tab[k][name] = v
        if v is not None:
            self.objs.append((v, ns, name, kind))

    def remove(self, ns, kind, name):
        if ns not in self.t:
            return
        tab = self.t[ns]
        if name not in tab[kind]:
            return
        own = tab[kind].pop(name)
        if own is not None:
            self.removed.add(id(own))
        # the shared declaration table loses the name only when it still holds this very declaration
        if kind in DECLK and name in tab['decls'] and tab['decls'][name] is own:
            tab['decls'].pop(name)

    def drop(self, ns):
        if ns in self.t:
            for k in ALLK:
                for v in self.t[ns][k].values():
                    if v is not None:
                        self.unspec.add(id(v))
            del self.t[ns]

    # ---- queries
    def cur(self, ns, kind):
        return list(self.t.get(ns, {}).get(kind, {}).items())

    def scoped(self, ns, kind):
        out = OrderedDict()
        for i in range(1, len(ns) + 1):
            out.update(self.t.get(ns[:i], {}).get(kind, {}))
        return dict(out)

    def reachable_ns(self, root):
        """namespaces reachable from the root through declared functions and classes
        (artificial None entries count as declared names)"""
        out, todo = [], [root]
        while todo:
            ns = todo.pop()
            out.append(ns)
            tab = self.t.get(ns, {})
            for k in ('funcs', 'classes'):
                for name in tab.get(k, {}):
                    todo.append(ns + (name,))
        return out

    def glob_candidates(self, root, kind):
        cands = {}
        for ns in self.reachable_ns(root):
            for name, v in self.t.get(ns, {}).get(kind, {}).items():
                cands.setdefault(name, []).append(v)
        return cands


def _mkval(kind, name, artificial, uid):
    if kind == 'funcs':
        return None if artificial else ast.FunctionDeclaration(
            name, [], jt.Void, None, ast.FunctionDeclaration.FUNCTION)
    if kind == 'classes':
        return None if artificial else ast.ClassDeclaration(name, [])
    if kind == 'vars':
        return ast.ParameterDeclaration(name, jt.Integer) if artificial else \
            ast.VariableDeclaration(name, ast.BottomConstant(jt.Integer), var_type=jt.Integer)
    if kind == 'types':
        return tp.TypeParameter(name)
    return ast.Lambda(name, [], jt.Void, None, None)


ADD = {'funcs': 'add_func', 'vars': 'add_var', 'classes': 'add_class', 'types': 'add_type',
       'lambdas': 'add_lambda'}
REM = {'funcs': 'remove_func', 'vars': 'remove_var', 'classes': 'remove_class',
       'types': 'remove_type', 'lambdas': 'remove_lambda'}
GET = {'funcs': 'get_funcs', 'vars': 'get_vars', 'classes': 'get_classes', 'types': 'get_types',
       'lambdas': 'get_lambdas', 'decls': 'get_declarations'}


def apply_op(eng, c, m, NS, NAMES, log, uid, with_drop):
    op = int(eng.fresh_int(0, 2 if with_drop else 1, 'op'))
    ns = NS[int(eng.fresh_int(0, len(NS) - 1, 'ns'))]
    if op == 2:
        c.remove_namespace(ns)
        m.drop(ns)
        log.append(('remove_namespace', ns))
        return
    name = NAMES[int(eng.fresh_int(0, len(NAMES) - 1, 'nm'))]
    tabs = tables_for(name)
    kind = tabs[int(eng.fresh_int(0, len(tabs) - 1, 'tab'))]
    if op == 0:
        art = bool(eng.fresh_bool('alt')) if kind in ('funcs', 'classes', 'vars') else False
        v = _mkval(kind, name, art, uid)
        getattr(c, ADD[kind])(ns, name, v)
        m.add(ns, kind, name, v)
        log.append((ADD[kind], ns, name, type(v).__name__))
    else:
        getattr(c, REM[kind])(ns, name)
        m.remove(ns, kind, name)
        log.append((REM[kind], ns, name))


def compare(c, m, NS, NAMES, log):
    """All queries of the public API vs. the reference. Returns [(key, ok, detail)]."""
    res = []

    def ck(key, ok, detail=None):
        res.append((key, bool(ok), detail))
    probe_ns = list(NS) + [G + ('zz',)]
    for ns in probe_ns:
        for kind in ALLK:
            get = getattr(c, GET[kind])
            # current namespace: exact entries in insertion order
            cur = m.cur(ns, kind)
            got = get(ns, only_current=True, none=True)
            ck('current', list(got.items()) == cur, (ns, kind, 'none=True'))
            got = get(ns, only_current=True)
            ck('current', list(got.items()) == [(k, v) for k, v in cur if v is not None], (ns, kind))
            # enclosing scopes
            sc = m.scoped(ns, kind)
            got = get(ns, none=True)
            ck('scoped', dict(got) == sc, (ns, kind, 'none=True'))
            got = dict(get(ns))
            a1 = {k: v for k, v in sc.items() if v is not None}           # shadow, then hide artificial
            ck('scoped', got == a1, (ns, kind))
            # global
            cands = m.glob_candidates(G, kind)
            for none in (True, False):
                got = dict(get(ns, glob=True, none=none))
                ok = True
                for name, vs in cands.items():
                    if name in got:
                        ok = ok and any(got[name] is v for v in vs)
                    else:
                        # may only be absent when hidden as an artificial entry
                        ok = ok and (not none) and any(v is None for v in vs)
                    if not none and name in got and got[name] is None:
                        ok = False
                ok = ok and set(got) <= set(cands)
                ck('glob', ok, (ns, kind, none))
        for name in NAMES:
            d = m.t.get(ns, {}).get('decls', {}).get(name)
            ck('get_decl', c.get_decl(ns, name) is d, (ns, name))
            ck('get_decl_type', c.get_decl_type(ns, name) is type(d), (ns, name))
            lm = m.t.get(ns, {}).get('lambdas', {}).get(name)
            ck('get_lambda', c.get_lambda(ns, name) is lm, (ns, name))
            # module-level get_decl: innermost enclosing namespace that has one
            for limit in (None, G, G + ('f',)):
                want = None
                k = len(ns)
                while k >= 1 and (limit is None or ns[:len(limit)] == limit and k >= len(limit)):
                    dd = m.t.get(ns[:k], {}).get('decls', {}).get(name)
                    if dd is not None:
                        want = (ns[:k], dd)
                        break
                    k -= 1
                got = ctxmod.get_decl(c, ns, name, limit=limit)
                ok = (got is None and want is None) or (
                    got is not None and want is not None and got[0] == want[0] and got[1] is want[1])
                ck('lookup', ok, (ns, name, limit))
            for kind in KINDS:
                for glob in (True, False):
                    got = c.get_namespaces_decls(ns, name, kind, glob=glob)
                    want = set()
                    for r in m.reachable_ns(G if glob else ns):
                        tab = m.t.get(r, {}).get(kind, {})
                        # find_namespaces(none=False) does not descend through artificial entries
                        if name in tab:
                            want.add((r + (name,), id(tab[name])))
                    want_strict = set()
                    for r in _reach_no_art(m, G if glob else ns):
                        tab = m.t.get(r, {}).get(kind, {})
                        if name in tab:
                            want_strict.add((r + (name,), id(tab[name])))
                    g = {(a, id(b)) for a, b in got}
                    ck('namespaces_decls', g == want_strict, (ns, name, kind, glob))
        # parents
        par = m.t.get(ns[:-2], {}).get('decls', {}).get(ns[-2]) if len(ns) >= 2 else None
        ck('get_parent', c.get_parent(ns) is par, (ns,))
        ck('get_parent_class', c.get_parent_class(ns) is _parent_class(m, ns), (ns,))
        want = {r: list(t['decls'].items()) for r, t in m.t.items() if r[:len(ns)] == ns}
        got = {r: list(d.items()) for r, d in c.get_declarations_in(ns).items()}
        ck('declarations_in', got == want, (ns,))
    # reverse lookup
    present = {}
    for ns, tab in m.t.items():
        for k in ALLK:
            for v in tab[k].values():
                if v is not None:
                    present[id(v)] = ns
    for v, ns, name, kind in m.objs:
        if kind == 'types' or id(v) in m.unspec:
            continue          # equal-but-distinct type parameters / overwritten entries: unspecified
        if id(v) in present and id(v) in m.cross_removed:
            ck('reverse-after-cross-kind-remove', c.get_namespace(v) == ns, (name, kind, ns))
        elif id(v) in present:
            ck('reverse', c.get_namespace(v) == ns, (name, kind, ns))
        elif id(v) in m.removed:
            ck('reverse-removed', c.get_namespace(v) is None, (name, kind, ns))
    return res


def _reach_no_art(m, root):
    out, todo = [], [root]
    while todo:
        ns = todo.pop()
        out.append(ns)
        tab = m.t.get(ns, {})
        for k in ('funcs', 'classes'):
            for name, v in tab.get(k, {}).items():
                if v is not None:
                    todo.append(ns + (name,))
    return out


def _parent_class(m, ns):
    while True:
        par = m.t.get(ns[:-2], {}).get('decls', {}).get(ns[-2]) if len(ns) >= 2 else None
        if par is None and not (len(ns) > 2 and 'lambda_' in ns[-2]):
            return None
        if isinstance(par, ast.ClassDeclaration):
            return par
        ns = ns[:-1]


def _finish(eng, c, m, NS, NAMES, log):
    res = compare(c, m, NS, NAMES, log)
    bad = [(k, d) for k, ok, d in res if not ok]
    kinds = {}
    for k, ok, d in res:
        kinds[k] = kinds.get(k, 0) + 1
    eng.notes['sample'] = dict(history=[list(map(str, e)) for e in log], queries_compared=len(res))
    eng.notes['observe'] = len(res)
    if any(e[0].startswith('remove_') and e[0] != 'remove_namespace' for e in log):
        eng.event('has-remove')
    if any(len(e) > 3 and e[3] == 'NoneType' for e in log):
        eng.event('artificial-entry')
    obs = []
    seen = set()
    for k, d in bad:
        if k not in seen:
            seen.add(k)
            obs.append(Ob('%s|%s' % (k, ';'.join(':'.join(map(str, e[:4] if k != 'reverse-after-cross-kind-remove' else e[:1])) for e in log)), False,
                          dict(query=k, detail=str(d), history=[list(map(str, e)) for e in log])))
    obs.append(Ob('all-queries-agree', not bad, None) if not bad else Ob('queries', True))
    return obs


def h_history(eng, K, NS, NAMES, with_drop=False, query_between=True):
    """every query is compared after every operation of the history (a query must not influence later answers)"""
    c, m, log = Context(), Ref(), []
    early = []
    for i in range(K):
        apply_op(eng, c, m, NS, NAMES, log, i, with_drop)
        if query_between and i < K - 1:
            for k, ok, d in compare(c, m, NS, NAMES, list(log)):
                if not ok:
                    early.append(Ob('%s|after-%d-of-%d|%s' % (k, i + 1, K, ';'.join(':'.join(map(str, e[:4])) for e in log)), False,
                                    dict(query=k, detail=str(d), history=[list(map(str, e)) for e in log])))
                    break
    return early[:1] + _finish(eng, c, m, NS, NAMES, log)


def _cands(NS, NAMES):
    out = []
    for ns in NS:
        for name in NAMES:
            for kind in tables_for(name):
                out.append((ns, name, kind))
    return out


def h_step(eng, NS, NAMES, ncand, offset):
    """Inductive step: a state holding an arbitrary subset of `ncand` candidate entries
    (inserted through the real API; the last two in either order), then one arbitrary
    operation, then all queries."""
    c, m, log = Context(), Ref(), []
    cands = _cands(NS, NAMES)
    cands = (cands[offset:] + cands[:offset])[:ncand]
    present = [(cd, bool(eng.fresh_bool('in'))) for cd in cands]
    chosen = [cd for cd, p in present if p]
    if len(chosen) >= 2 and bool(eng.fresh_bool('swap')):
        chosen[-1], chosen[-2] = chosen[-2], chosen[-1]
    for i, (ns, name, kind) in enumerate(chosen):
        v = _mkval(kind, name, False, i)
        getattr(c, ADD[kind])(ns, name, v)
        m.add(ns, kind, name, v)
        log.append((ADD[kind], ns, name, type(v).__name__))
    apply_op(eng, c, m, NS, NAMES, log, 99, True)
    return _finish(eng, c, m, NS, NAMES, log)


FUNCS = [Context._add_entity, Context._remove_entity, Context._get_declarations,
         Context._get_declarations_glob, Context.find_namespaces, Context.get_namespaces_decls,
         Context.get_decl, Context.get_lambda, Context.get_declarations_in, Context.get_namespace,
         Context.get_parent, Context.get_parent_class, Context.remove_namespace, ctxmod.get_decl]
OUT = ('histories longer than K; namespaces deeper than 4 components; reverse lookup of overwritten entries, of entries whose namespace was dropped by '
       'remove_namespace and of equal-but-distinct type parameters (unspecified by the statement); which of '
       'several same-named entries a global query returns (any of them is accepted)')


def jobs(tier):
    names4 = ['f', 'g', 'C', 'x']
    names5 = ['f', 'g', 'C', 'x', 'lambda_0']
    out = []
    if tier == 'quick':
        plan = [(0, NS_FULL, names5, True), (1, NS_FULL, names5, True), (2, NS_FULL, names4, False)]
    else:
        plan = [(0, NS_FULL, names5, True), (1, NS_FULL, names5, True), (2, NS_FULL, names5, True),
                (3, NS_SMALL, ['f', 'C', 'x'], False)]
    for K, NS, NAMES, drop in plan:
        out.append(Job('history-K%d' % K, h_history, dict(K=K, NS=NS, NAMES=NAMES, with_drop=drop),
                       split_depth=4, functions=FUNCS, budget_s=1500,
                       require_events=(['has-remove', 'artificial-entry'] if K >= 1 else []),
                       bounds='every history of exactly %d operations (add/remove%s) over %d namespaces x names %s x '
                              'their tables (declaration kind, type-parameter table; lambdas), values: real '
                              'declarations, artificial None entries, parameters; after every operation every query of the API '
                              'from every namespace' % (K, '/remove_namespace' if drop else '', len(NS), NAMES),
                       outside=OUT))
    if tier == 'quick':
        steps = [(8, 0)]
    else:
        steps = [(12, 0), (12, 12), (12, 24)]
    for ncand, off in steps:
        out.append(Job('step-%dentries-from%d' % (ncand, off), h_step,
                       dict(NS=NS_SMALL, NAMES=['f', 'C', 'x'], ncand=ncand, offset=off),
                       split_depth=6, functions=FUNCS, budget_s=1500,
                       bounds='every state holding a subset of %d candidate entries (window %d of the candidate '
                              'list, inserted through the real API, last two in both orders) followed by one '
                              'arbitrary operation, then every query' % (ncand, off),
                       outside=OUT))
    return out


META = dict(
    level='other',
    technique='bounded symbolic execution of the real Context API under a symbolic operation history '
              '(operations, namespaces, names, value kinds = solver integers) against a reference scoped map',
    assumptions=[
        'one declaration kind per name within a namespace (C05: identifiers unique per scope)',
        'reference map vlib.props.C16.Ref written from the statement; artificial (None) entries shadow '
        'outer entries and are hidden afterwards unless none=True',
    ],
)


def mutants():
    out = []
    orig = Context._remove_entity

    def bad_remove(self, namespace, entity, name):
        if namespace not in self._context:
            return
        if name in self._context[namespace][entity]:
            del self._context[namespace][entity][name]      # forgets the reverse map
    out.append(('remove forgets the reverse map', lambda: setattr(Context, '_remove_entity', bad_remove),
                lambda: setattr(Context, '_remove_entity', orig)))
    orig_gd = Context._get_declarations

    def bad_gd(self, namespace, decl_type, only_current, glob, none):
        if not glob and not only_current and len(namespace) > 2:
            # outer shadows inner
            decls = {}
            for i in range(len(namespace), 0, -1):
                decls.update(self._context.get(namespace[:i], {}).get(decl_type) or {})
            if not none:
                decls = {k: v for k, v in decls.items() if v is not None}
            return decls
        return orig_gd(self, namespace, decl_type, only_current, glob, none)
    out.append(('outer scope shadows inner for depth>2', lambda: setattr(Context, '_get_declarations', bad_gd),
                lambda: setattr(Context, '_get_declarations', orig_gd)))
    return out
