"""C01 (unit contracts) -- see vlib/genunits.py: generator units run under a symbolic RNG on small
symbolic scopes with the recursive generate_expr replaced by a contract stub; this module selects
the obligations tagged C01."""
from vlib.runner import Job
from vlib import genunits as U
from vlib import genunits_cls as UC
from vlib.symex import Ob

ASPECT = 'C01'


def jobs(tier):
    out = []
    langs = ['java', 'kotlin'] if tier == 'quick' else U.LANGS
    units = ['gen_variable', 'gen_assignment', 'gen_conditional', 'gen_new', 'gen_variable_decl', 'generate_expr', 'gen_field_access',
             'gen_func_call', 'select_superclass', 'gen_lambda', 'gen_is_expr',
             'gen_equality_expr', 'gen_logical_expr', 'gen_comparison_expr', 'gen_array_expr', 'gen_func_call_ref', 'gen_func_ref']
    for lang in langs:
        for unit in units:
            extra = U.unit_params(unit, tier)
            out.append(Job('%s-%s' % (unit, lang), U.harness, dict(lang=lang, unit=unit, aspect=ASPECT, **extra),
                           split_depth=6, functions=U.FUNCS[unit], stubs=U.STUBS, require_events=['unit:%s' % unit],
                           budget_s=2400, crosscheck_every=500, bounds=U.unit_bounds(extra), outside=U.OUT))
        out.append(Job('gen_assignment-projected-%s' % lang, U.harness,
                       dict(lang=lang, unit='gen_assignment', aspect=ASPECT, nvars=0, with_nested=False, projected=True),
                       split_depth=6, functions=U.FUNCS['gen_assignment'], stubs=U.STUBS, require_events=['unit:gen_assignment'],
                       budget_s=2400, crosscheck_every=500,
                       bounds='scope: top-level variable of symbolic type and finality + a local of the use-site projected type '
                              'Hh<out Aa> whose class has the non-final field hf: Gg<T2>; every RNG outcome', outside=U.OUT))
        out.append(Job('generate_expr-bounded-%s' % lang, U.harness,
                       dict(lang=lang, unit='generate_expr', aspect=ASPECT, nvars=0, with_nested=False, bounded=True),
                       split_depth=6, functions=U.FUNCS['generate_expr'], stubs=U.STUBS, require_events=['unit:generate_expr'],
                       budget_s=2400, crosscheck_every=500,
                       bounds='expected type one of Kk<in Bb>, Kk<out Bb>, Kk<Bb> for the class Kk<T3 : Bb> (Bb : Aa); every RNG '
                              'outcome', outside=U.OUT))
    out += UC.jobs(ASPECT, tier, langs)
    return out


META = dict(
    level='other',
    technique='assume-guarantee unit contracts: bounded symbolic execution of generator units under a symbolic RNG with the '
              'recursive generate_expr replaced by a contract stub; typing obligations judged by the declarative relation',
    assumptions=['contract of generate_expr: returns an expression of the requested type (a subtype when subtype=True, bottom when '
                 'gen_bottom)', 'declarative relation vlib/ref.py', 'composition of unit contracts is a paper argument'],
)


def mutants():
    from src.generators.generator import Generator
    out = []
    orig = Generator.gen_variable

    def bad(self, etype, only_leaves=False, subtype=True):
        return orig(self, etype, only_leaves, True)         # exact-type requests answered with subtypes
    out.append(('gen_variable ignores subtype=False', lambda: setattr(Generator, 'gen_variable', bad),
                lambda: setattr(Generator, 'gen_variable', orig)))
    orig_cmp = Generator.gen_comparison_expr

    def bad_cmp(self, expr_type=None, only_leaves=False):
        saved = self.bt_factory.get_number_types
        # a string may be compared with a number
        self.bt_factory.get_number_types = lambda: saved() + [self.bt_factory.get_string_type()]
        try:
            return orig_cmp(self, expr_type, only_leaves)
        finally:
            self.bt_factory.get_number_types = saved
    out.append(('gen_comparison_expr compares numbers with strings', lambda: setattr(Generator, 'gen_comparison_expr', bad_cmp),
                lambda: setattr(Generator, 'gen_comparison_expr', orig_cmp)))
    return out
