"""C01 (unit contracts) -- see vlib/genunits.py: generator units run under a symbolic RNG on small
symbolic scopes with the recursive generate_expr replaced by a contract stub; this module selects
the obligations tagged C01."""
from vlib.runner import Job
from vlib import genunits as U
from vlib import genunits_cls as UC
from vlib.symex import Ob

ASPECT = 'C01'


def h_create_type_params_bounds(eng, lang):
    """_create_type_params_from_etype (the class created on the fly for an expected attribute type that mentions type
    variables of the current scope): the class is afterwards instantiated with those type variables as arguments, so the
    bound of every mapped type parameter must admit the variable it stands for -- also when gen_type_params drew a bound"""
    from src.ir import ast, types as tp
    from vlib.props.C17 import make_generator
    from vlib.symrandom import installed, config
    from vlib.ref import World, show
    shape = int(eng.fresh_int(0, 4, 'shape'))
    g = make_generator(lang, False, True)
    f = g.bt_factory
    Aa = g.context.get_classes(ast.GLOBAL_NAMESPACE)['Aa'].get_type()
    T, U, V = tp.TypeParameter('T'), tp.TypeParameter('U', bound=f.get_integer_type()), tp.TypeParameter('V', bound=Aa)
    Gt = g.context.get_classes(ast.GLOBAL_NAMESPACE)['Gg'].get_type()
    etype = {0: T, 1: Gt.new([T]), 2: Gt.new([Gt.new([U])]), 3: Gt.new([V]), 4: V}[shape]
    g.namespace = ast.GLOBAL_NAMESPACE + ('Cls',)
    with installed(eng, max_sym_draws=8) as rnd, config(limits__max_type_params=2, prob__bounded_type_parameters=0.5):
        tps, tvm, can_wild = g._create_type_params_from_etype(etype)
        log = list(rnd.log)
    w = World()
    w.top = w.snap(f.get_any_type())
    case = dict(unit='_create_type_params_from_etype', language=lang, etype=str(etype), type_parameters=[str(t) for t in tps],
                mapping={str(k): str(v) for k, v in tvm.items()}, rng=log[:10])
    obs = []
    for var, par in tvm.items():
        pb = w.snap(par.bound) if par.bound is not None else None
        vb = w.snap(var.bound) if var.bound is not None else None
        ok = pb is None or pb == w.top or (vb is not None and (vb == pb or w.sub(vb, pb)))
        obs.append(Ob('create_type_params|bound-of-the-parameter-admits-the-type-variable-it-stands-for', ok,
                      dict(case, variable=str(var), parameter=str(par))))
        if par.bound is not None:
            eng.event('bounded-parameter')
    obs.append(Ob('create_type_params|every-type-variable-mapped', len(tvm) >= 1 and all(p in tps for p in tvm.values()), case))
    names = [t.name for t in tps]
    obs.append(Ob('create_type_params|parameter-names-unique', len(names) == len(set(names)), case))
    eng.event('created')
    eng.notes['sample'] = case
    return obs


def jobs(tier):
    out = []
    langs = ['java', 'kotlin'] if tier == 'quick' else U.LANGS
    units = ['gen_variable', 'gen_assignment', 'gen_conditional', 'gen_new', 'gen_variable_decl', 'generate_expr', 'gen_field_access',
             'gen_func_call', 'select_superclass', 'gen_lambda', 'gen_is_expr',
             'gen_equality_expr', 'gen_logical_expr', 'gen_comparison_expr', 'gen_array_expr', 'gen_func_call_ref', 'gen_func_ref']
    for lang in langs:
        for unit in units:
            extra = U.unit_params(unit, tier)
            out.append(Job('%s-%s' % (unit, lang), U.harness, dict(lang=lang, unit=unit, aspect=ASPECT, **extra),
                           split_depth=6, functions=U.FUNCS[unit], stubs=U.STUBS, require_events=['unit:%s' % unit],
                           budget_s=2400, crosscheck_every=500, bounds=U.unit_bounds(extra), outside=U.OUT))
        out.append(Job('gen_assignment-projected-%s' % lang, U.harness,
                       dict(lang=lang, unit='gen_assignment', aspect=ASPECT, nvars=0, with_nested=False, projected=True),
                       split_depth=6, functions=U.FUNCS['gen_assignment'], stubs=U.STUBS, require_events=['unit:gen_assignment'],
                       budget_s=2400, crosscheck_every=500,
                       bounds='scope: top-level variable of symbolic type and finality + a local of the use-site projected type '
                              'Hh<out Aa> whose class has the non-final field hf: Gg<T2>; every RNG outcome', outside=U.OUT))
        if lang in ('java', 'groovy'):
            out.append(Job('gen_variable-numeric-%s' % lang, U.harness,
                           dict(lang=lang, unit='gen_variable', aspect=ASPECT, nvars=1, with_nested=False, numeric=True),
                           split_depth=6, functions=U.FUNCS['gen_variable'], stubs=U.STUBS, require_events=['unit:gen_variable'],
                           budget_s=2400, crosscheck_every=500,
                           bounds='variable and expected types from {short, int, Integer, Long, Short} (primitive and boxed side by '
                                  'side), judged by the assignment conversions of JLS 5.2; every RNG outcome', outside=U.OUT))
        out.append(Job('generate_expr-bounded-%s' % lang, U.harness,
                       dict(lang=lang, unit='generate_expr', aspect=ASPECT, nvars=0, with_nested=False, bounded=True),
                       split_depth=6, functions=U.FUNCS['generate_expr'], stubs=U.STUBS, require_events=['unit:generate_expr'],
                       budget_s=2400, crosscheck_every=500,
                       bounds='expected type one of Kk<in Bb>, Kk<out Bb>, Kk<Bb> for the class Kk<T3 : Bb> (Bb : Aa); every RNG '
                              'outcome', outside=U.OUT))
    out += UC.jobs(ASPECT, tier, langs)
    from src.generators.generator import Generator
    for lang in langs:
        out.append(Job('create_type_params-bounds-%s' % lang, h_create_type_params_bounds, dict(lang=lang), split_depth=5,
                       functions=[Generator._create_type_params_from_etype, Generator.gen_type_params], stubs=U.STUBS[:1],
                       require_events=['created', 'bounded-parameter'], crosscheck_every=200, budget_s=900,
                       bounds='etype in {T, Gg<T>, Gg<Gg<U : Int>>, Gg<V : Aa>, V : Aa}; <=2 type parameters, bounds drawn with '
                              'probability 0.5; every RNG outcome of the first 8 draws', outside=U.OUT))
    return out


META = dict(
    level='other',
    technique='assume-guarantee unit contracts: bounded symbolic execution of generator units under a symbolic RNG with the '
              'recursive generate_expr replaced by a contract stub; typing obligations judged by the declarative relation',
    assumptions=['contract of generate_expr: returns an expression of the requested type (a subtype when subtype=True, bottom when '
                 'gen_bottom)', 'declarative relation vlib/ref.py', 'composition of unit contracts is a paper argument'],
)


def mutants():
    from src.generators.generator import Generator
    out = []
    orig = Generator.gen_variable

    def bad(self, etype, only_leaves=False, subtype=True):
        return orig(self, etype, only_leaves, True)         # exact-type requests answered with subtypes
    out.append(('gen_variable ignores subtype=False', lambda: setattr(Generator, 'gen_variable', bad),
                lambda: setattr(Generator, 'gen_variable', orig)))
    orig_cmp = Generator.gen_comparison_expr

    def bad_cmp(self, expr_type=None, only_leaves=False):
        saved = self.bt_factory.get_number_types
        # a string may be compared with a number
        self.bt_factory.get_number_types = lambda: saved() + [self.bt_factory.get_string_type()]
        try:
            return orig_cmp(self, expr_type, only_leaves)
        finally:
            self.bt_factory.get_number_types = saved
    out.append(('gen_comparison_expr compares numbers with strings', lambda: setattr(Generator, 'gen_comparison_expr', bad_cmp),
                lambda: setattr(Generator, 'gen_comparison_expr', orig_cmp)))
    return out
