"""Assume-guarantee judgement atoms: `Leaf` types whose sub-judgements are solver atoms.

A Leaf is a real subclass of src.ir.types.Type with a concrete distinct name.
`a.is_subtype(b)` answers with the atom impl[a<=b]; its twin decl[a<=b] is the
truth in the declarative relation.  The induction hypothesis impl => decl
(soundness lemmas) or impl <=> decl (exactness lemmas) is asserted when an atom
is created; reflexivity/transitivity of decl over the leaves in play is added
by `close()`.
"""
import itertools

import z3

from src.ir import types as tp

from vlib.symex import SymBool, T


class Atoms:
    def __init__(self, eng, exact=False):
        self.eng = eng
        self.exact = exact
        self.impl, self.decl, self.eqs = {}, {}, {}
        self.names = set()

    def _key(self, x):
        return x.name if isinstance(x, Leaf) else '#' + str(x)

    def sub(self, a, b):
        k = (self._key(a), self._key(b))
        if k not in self.impl:
            i = self.eng.fresh_atom('impl[%s<=%s]' % k)
            d = self.eng.fresh_atom('decl[%s<=%s]' % k)
            self.impl[k], self.decl[k] = i, d
            self.names.update(k)
            if self.eng.concrete is None:
                self.eng.assume_unchecked((T(i) == T(d)) if self.exact else z3.Implies(T(i), T(d)))
        return self.impl[k]

    def d(self, a, b):
        """decl[a<=b] as z3 term (a is b -> True)"""
        if a is b:
            return z3.BoolVal(True)
        self.sub(a, b)
        return T(self.decl[(self._key(a), self._key(b))])

    def eq(self, a, b):
        k = tuple(sorted((a.name, b.name)))
        if k not in self.eqs:
            e = self.eng.fresh_atom('eq[%s,%s]' % k)
            self.eqs[k] = e
            if self.eng.concrete is None:
                # structurally equal types are mutually subtypes, in the implementation too
                self.eng.assume_unchecked(z3.Implies(T(e), z3.And(
                    T(self.sub(a, b)), T(self.sub(b, a)), self.d(a, b), self.d(b, a))))
        return self.eqs[k]

    def eqt(self, a, b):
        return z3.BoolVal(True) if a is b else T(self.eq(a, b))

    def close(self, leaves):
        """decl is transitive on the given leaves; equal leaves are interchangeable"""
        if self.eng.concrete is not None:
            return
        for a, b, c in itertools.permutations(leaves, 3):
            self.eng.assume_unchecked(z3.Implies(z3.And(self.d(a, b), self.d(b, c)), self.d(a, c)))
        for a, b in itertools.permutations(leaves, 2):
            for c in leaves:
                if c is a or c is b:
                    continue
                e = self.eqt(a, b)
                self.eng.assume_unchecked(z3.Implies(e, z3.And(self.d(a, c) == self.d(b, c),
                                                              self.d(c, a) == self.d(c, b))))


class Leaf(tp.Type):
    """opaque ground type; every judgement about it is an atom"""

    def __init__(self, name, atoms):
        super().__init__(name)
        self.atoms = atoms

    def __deepcopy__(self, memo):
        return self

    def __copy__(self):
        return self

    def is_subtype(self, other):
        if other is self:
            return True
        return self.atoms.sub(self, other)

    def __eq__(self, other):
        if other is self:
            return True
        if not isinstance(other, Leaf):
            return False
        return self.atoms.eq(self, other)

    def __ne__(self, other):
        r = self.__eq__(other)
        return (not r) if isinstance(r, bool) else ~r

    def __hash__(self):
        return 0

    def has_type_variables(self):
        return False

    def is_primitive(self):
        return False

    def get_supertypes(self):
        return {self}

    def __str__(self):
        return self.name
