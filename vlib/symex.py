r"""Path-forking symbolic executor for Python code, deciding with z3.

The harness (a plain Python function `fn(eng, **params)`) builds its inputs
from `eng.fresh_bool` / `eng.fresh_int`, runs the *real* code of /repo on them
and returns a list of obligations `Ob(key, formula)`.  Whenever the code under
test branches on a symbolic value (`SymBool.__bool__`, `SymInt.__index__`)
the engine records a decision; alternatives that the solver finds feasible
under the path condition are explored by re-execution (DFS).  At the end of a
path every obligation is discharged with `pc /\ not ob` -- `unsat` means the
obligation holds for every value of every variable (examined or not) along
this path.  The verdict of a job is the conjunction over all feasible paths
together with an empty work-list (`exhaustive`).

A second mode (`Engine(concrete=assignment)`) hands out plain Python values
(`bool`, `int`) for the same sequence of `fresh_*` calls; it is used to replay
counterexamples and to cross-check closed paths without any proxy object
("concolic cross-run").
"""
import fnmatch
import time
import z3


class Infeasible(BaseException):
    """Raised inside a harness when the current path has no feasible
    continuation (BaseException so that `except Exception` in the code under
    test does not swallow it)."""


class Split(BaseException):
    """Raised in split mode when a new decision would exceed the split depth."""


class Abort(BaseException):
    """Budget exhausted."""


class Divergence(BaseException):
    """Concrete re-run asked for a variable the recorded assignment lacks."""


class Ob:
    """One obligation: `key` names the case (stable across runs), `formula`
    is a z3 BoolRef, a SymBool or a plain bool; `info` is a JSON-able
    description of the concrete case (rendered lazily when it is callable)."""
    __slots__ = ('key', 'formula', 'info')

    def __init__(self, key, formula, info=None):
        self.key = key
        self.formula = formula
        self.info = info


def _vars(e, out=None):
    out = set() if out is None else out
    stack = [e]
    seen = set()
    while stack:
        x = stack.pop()
        i = x.get_id()
        if i in seen:
            continue
        seen.add(i)
        if z3.is_const(x):
            if x.decl().kind() == z3.Z3_OP_UNINTERPRETED:
                out.add(i)
        else:
            stack.extend(x.children())
    return out


def T(x):
    """z3 Bool term of a SymBool / bool / z3 term."""
    if isinstance(x, SymBool):
        return x.e
    if isinstance(x, z3.BoolRef):
        return x
    return z3.BoolVal(bool(x))


def TI(x):
    if isinstance(x, SymInt):
        return x.e
    if isinstance(x, z3.ArithRef):
        return x
    return z3.IntVal(int(x))


class Engine:
    def __init__(self, concrete=None, deadline=None, timeout_ms=20000):
        self.concrete = concrete           # list of values in creation order, or None
        self.solver = None if concrete is not None else z3.Solver()
        if self.solver is not None:
            self.solver.set('timeout', timeout_ms)
        self.deadline = deadline
        self.stats = dict(paths=0, infeasible=0, dec_fast=0, dec_solver=0,
                          dec_cached=0, solver_calls=0, solver_s=0.0,
                          final_queries=0, final_trivial=0, unknown=0,
                          max_decisions=0)
        self.events = {}
        self._consts = {}       # name -> z3 const, shared by all paths of this process
        self._memo = {}         # harness-level cache of spec terms (names are deterministic)
        self._reset_path([])

    # ------------------------------------------------------------ path state
    def _reset_path(self, prefix):
        self._prefix = prefix
        self._trace = []
        self._pc = []
        self._synced = 0
        self._n = 0
        self._touched = set()
        self._ranges = {}
        self._known = {}
        self._created = []      # (name, sort, z3 const) in creation order
        self._path_events = []
        self.notes = {}         # free-form per-path notes of the harness
        if self.solver is not None:
            self.solver.reset()
            self.solver.set('timeout', 20000)

    def event(self, name):
        self._path_events.append(name)

    def memo(self, key, thunk):
        """Cache a spec term across paths (variable names are deterministic,
        so the same key denotes the same formula on every path)."""
        v = self._memo.get(key)
        if v is None:
            v = self._memo[key] = thunk()
        return v

    # ---------------------------------------------------------------- solver
    def _sync(self):
        if self._synced < len(self._pc):
            self.solver.add(*self._pc[self._synced:])
            self._synced = len(self._pc)

    def check(self, *extra):
        self._sync()
        t = time.perf_counter()
        self.stats['solver_calls'] += 1
        r = self.solver.check(*extra)
        self.stats['solver_s'] += time.perf_counter() - t
        if r == z3.unknown:
            self.stats['unknown'] += 1
        return r

    def assume(self, c):
        """Add a constraint to the path condition (must be satisfiable
        together with it -- checked)."""
        if self.concrete is not None:
            v = z3.simplify(T(c))
            if not z3.is_true(v):
                raise Infeasible()
            return
        c = T(c)
        if z3.is_true(c):
            return
        self._pc.append(c)
        _vars(c, self._touched)
        r = self.check()
        if r == z3.unsat:
            raise Infeasible()

    def assume_unchecked(self, c):
        """Add an axiom known to be consistent (e.g. definitions of fresh
        atoms).  Does not call the solver."""
        if self.concrete is not None:
            return
        c = T(c)
        self._pc.append(c)
        _vars(c, self._touched)

    # ---------------------------------------------------------------- values
    def fresh_bool(self, hint='b'):
        name = '%s!%d' % (hint, self._n)
        self._n += 1
        if self.concrete is not None:
            return bool(self._next_concrete(name))
        v = self._consts.get(name)
        if v is None:
            v = self._consts[name] = z3.Bool(name)
        self._created.append((name, 'b', v))
        return SymBool(self, v)

    def fresh_int(self, lo, hi, hint='i'):
        name = '%s!%d' % (hint, self._n)
        self._n += 1
        if lo > hi:
            raise Infeasible()
        if self.concrete is not None:
            v = int(self._next_concrete(name))
            if not lo <= v <= hi:
                raise Divergence('%s=%r outside [%d,%d]' % (name, v, lo, hi))
            return v
        c = self._consts.get((name, lo, hi))
        if c is None:
            v = z3.Int(name)
            c = self._consts[(name, lo, hi)] = (v, z3.And(v >= lo, v <= hi))
        v, rng = c
        self._created.append((name, 'i', v))
        self._ranges[v.get_id()] = (lo, hi)
        self._pc.append(rng)      # range does not 'touch'
        return SymInt(self, v)

    def fresh_int_unbounded(self, hint='u', lo=None):
        """An arbitrary mathematical integer (optionally >= lo).  Must not be
        concretised by the code under test (only compared / added)."""
        name = '%s!%d' % (hint, self._n)
        self._n += 1
        if self.concrete is not None:
            return int(self._next_concrete(name))
        c = self._consts.get((name, lo, None))
        if c is None:
            v = z3.Int(name)
            c = self._consts[(name, lo, None)] = (v, (v >= lo) if lo is not None else None)
        v, rng = c
        self._created.append((name, 'i', v))
        if rng is not None:
            self._pc.append(rng)
            self._touched.add(v.get_id())
        return SymInt(self, v)

    def known_value(self, sym):
        """True/False if the literal was decided on this path, else None."""
        if isinstance(sym, bool):
            return sym
        return self._known.get(sym.e.get_id())

    def fresh_atom(self, name):
        """A named boolean that is *not* part of the creation sequence handed
        to concrete replays by position (it is looked up by name)."""
        if self.concrete is not None:
            return bool(self.concrete_named.get(name, False))
        v = self._consts.get(name)
        if v is None:
            v = self._consts[name] = z3.Bool(name)
        self._created.append((name, 'a', v))
        return SymBool(self, v)

    def _next_concrete(self, name):
        i = len(self._created)
        if i >= len(self.concrete):
            raise Divergence('concrete run asks for %s beyond recorded assignment' % name)
        n, v = self.concrete[i]
        if n != name:
            raise Divergence('concrete run asks for %s, recorded %s' % (name, n))
        self._created.append((name, 'c', None))
        return v

    def choice_index(self, n, hint='c'):
        """An arbitrary index into a sequence of length n, concretised at once
        (n-ary decision)."""
        if n <= 0:
            raise IndexError('Cannot choose from an empty sequence')
        if n == 1:
            return 0
        return int(self.fresh_int(0, n - 1, hint))

    # ------------------------------------------------------------- decisions
    def _take(self, options_thunk):
        i = len(self._trace)
        if i < len(self._prefix):
            ch = self._prefix[i]
        else:
            if self.split_depth is not None and i >= self.split_depth:
                raise Split()
            if self.deadline is not None and time.time() > self.deadline:
                raise Abort()
            opts = options_thunk()
            if not opts:
                raise Infeasible()
            ch = opts[0]
            for o in opts[1:]:
                self._work.append(self._trace + [o])
        self._trace.append(ch)
        return ch

    split_depth = None

    def decide(self, cond):
        if z3.is_true(cond):
            return True
        if z3.is_false(cond):
            return False
        cid = cond.get_id()
        k = self._known.get(cid)
        if k is not None:
            self.stats['dec_cached'] += 1
            return k

        def opts():
            lit = cond.arg(0) if z3.is_not(cond) else cond
            if (z3.is_const(lit) and lit.decl().kind() == z3.Z3_OP_UNINTERPRETED
                    and lit.get_id() not in self._touched):
                self.stats['dec_fast'] += 1
                return [True, False]
            self.stats['dec_solver'] += 1
            o = []
            r1 = self.check(cond)
            if r1 == z3.sat:
                o.append(True)
            r2 = self.check(z3.Not(cond))
            if r2 == z3.sat:
                o.append(False)
            if r1 == z3.unknown or r2 == z3.unknown:
                raise Abort()
            return o
        d = self._take(opts)
        c = cond if d else z3.Not(cond)
        self._pc.append(c)
        if z3.is_const(cond):
            self._touched.add(cid)
        else:
            _vars(c, self._touched)
        self._known[cid] = d
        if z3.is_not(cond):
            self._known[cond.arg(0).get_id()] = not d
        return d

    def concretize(self, e):
        if z3.is_int_value(e):
            return e.as_long()
        cid = e.get_id()
        k = self._known.get(cid)
        if k is not None:
            self.stats['dec_cached'] += 1
            return k

        def opts():
            if z3.is_const(e) and cid in self._ranges and cid not in self._touched:
                self.stats['dec_fast'] += 1
                lo, hi = self._ranges[cid]
                return list(range(lo, hi + 1))
            self.stats['dec_solver'] += 1
            vals = []
            self._sync()
            self.solver.push()
            while True:
                r = self.check()
                if r == z3.unknown:
                    self.solver.pop()
                    raise Abort()
                if r != z3.sat:
                    break
                v = self.solver.model().eval(e, model_completion=True).as_long()
                vals.append(v)
                self.solver.add(e != v)
                if len(vals) > 4096:
                    self.solver.pop()
                    raise Abort()
            self.solver.pop()
            return sorted(vals)
        v = self._take(opts)
        self._pc.append(e == v)
        _vars(e, self._touched)
        self._known[cid] = v
        return v

    # --------------------------------------------------------------- explore
    def model_assignment(self, model):
        """Full assignment of every variable created on this path, in
        creation order, plus named atoms."""
        seq, named = [], {}
        for name, sort, v in self._created:
            val = model.eval(v, model_completion=True)
            if sort == 'i':
                seq.append((name, val.as_long()))
            elif sort == 'b':
                seq.append((name, bool(z3.is_true(val))))
            else:
                named[name] = bool(z3.is_true(val))
        return seq, named

    def run_concrete(self, fn, params, assignment, named=None):
        """Plain-value re-run.  Returns the list of obligations evaluated to
        python bools [(key, bool, info)] and the harness notes."""
        c = Engine(concrete=list(assignment))
        c.concrete_named = dict(named or {})
        c._work = []
        obs = fn(c, **params) or []
        out = []
        for ob in obs:
            f = ob.formula
            if isinstance(f, (SymBool, z3.BoolRef)):
                val = z3.simplify(T(f))
                if z3.is_true(val):
                    f = True
                elif z3.is_false(val):
                    f = False
                else:
                    raise Divergence('obligation %s not closed in concrete run: %s' % (ob.key, val))
            info = ob.info() if callable(ob.info) else ob.info
            out.append((ob.key, bool(f), info))
        if len(c._created) != len(c.concrete):
            raise Divergence('concrete run consumed %d of %d recorded values'
                             % (len(c._created), len(c.concrete)))
        return out, c.notes, c._path_events

    def explore(self, fn, params, prefixes=None, split_depth=None,
                crosscheck_every=0, max_violations=8, collect_samples=3,
                stop_keys=(), known_patterns=()):
        """Explore all paths below each prefix.  Returns a dict with
        `exhaustive`, `violations`, `splits` (in split mode), `samples`."""
        self._work = [list(p) for p in (prefixes if prefixes is not None else [[]])]
        self.split_depth = split_depth
        res = dict(exhaustive=True, violations=[], splits=[], samples=[],
                   crosschecks=0, diverged=[], errors=[], ob_keys={})
        seen_keys = set(stop_keys)
        seen_known = set()
        nknown = 0
        while self._work:
            if self.deadline is not None and time.time() > self.deadline:
                res['exhaustive'] = False
                break
            self._reset_path(self._work.pop())
            try:
                obs = fn(self, **params) or []
            except Infeasible:
                self.stats['infeasible'] += 1
                continue
            except Split:
                res['splits'].append(list(self._trace))
                continue
            except Abort:
                res['exhaustive'] = False
                break
            self.stats['paths'] += 1
            self.stats['max_decisions'] = max(self.stats['max_decisions'], len(self._trace))
            for ev in self._path_events:
                self.events[ev] = self.events.get(ev, 0) + 1
            path_viol = False
            for ob in obs:
                res['ob_keys'][ob.key.split('|')[0]] = res['ob_keys'].get(ob.key.split('|')[0], 0) + 1
                f = ob.formula
                if isinstance(f, (SymBool, z3.BoolRef)):
                    f = T(f)
                    if z3.is_true(f):
                        self.stats['final_trivial'] += 1
                        continue
                    self.stats['final_queries'] += 1
                    r = self.check(z3.Not(f))
                    if r == z3.unsat:
                        continue
                    if r == z3.unknown:
                        res['exhaustive'] = False
                        res['errors'].append('unknown on obligation %s' % ob.key)
                        continue
                    model = self.solver.model()
                else:
                    self.stats['final_trivial'] += 1
                    if f:
                        continue
                    r = self.check()
                    if r != z3.sat:
                        res['errors'].append('path condition not sat at concrete-false obligation %s: %s' % (ob.key, r))
                        res['exhaustive'] = False
                        continue
                    model = self.solver.model()
                path_viol = True
                seq, named = self.model_assignment(model)
                info = ob.info() if callable(ob.info) else ob.info
                if ob.key not in seen_keys:
                    seen_keys.add(ob.key)
                    kp = next((p for p in known_patterns if fnmatch.fnmatchcase(ob.key, p)), None)
                    if kp is not None:
                        # a recorded finding: keep one instance per pattern, do not count it
                        if kp in seen_known:
                            continue
                        seen_known.add(kp)
                        nknown += 1
                    res['violations'].append(dict(key=ob.key, info=info, assignment=seq,
                                                  named=named, trace=list(self._trace)))
            if len(res['samples']) < collect_samples and self.notes.get('sample') is not None:
                res['samples'].append(self.notes['sample'])
            if (crosscheck_every and not path_viol
                    and self.stats['paths'] % crosscheck_every == 0):
                r = self.check()
                if r == z3.sat:
                    seq, named = self.model_assignment(self.solver.model())
                    sym_obs = self.notes.get('observe')
                    try:
                        cobs, cnotes, _ = self.run_concrete(fn, params, seq, named)
                        res['crosschecks'] += 1
                        bad = [k for k, v, _ in cobs if not v]
                        if bad:
                            res['diverged'].append('concrete run violates %s where symbolic path proved it' % bad[:3])
                        elif sym_obs is not None and cnotes.get('observe') != sym_obs:
                            res['diverged'].append('observation differs: sym=%r conc=%r' % (sym_obs, cnotes.get('observe')))
                    except (Divergence, Infeasible) as e:
                        res['diverged'].append('%s: %s' % (type(e).__name__, e))
            if len(res['violations']) - nknown >= max_violations:
                res['exhaustive'] = False
                res['stopped_on_violations'] = True
                break
        return res


class SymBool:
    __slots__ = ('eng', 'e')

    def __init__(self, eng, e):
        self.eng = eng
        self.e = e

    def __bool__(self):
        return self.eng.decide(self.e)

    def __invert__(self):
        return SymBool(self.eng, z3.Not(self.e))

    def __and__(self, o):
        return SymBool(self.eng, z3.And(self.e, T(o)))
    __rand__ = __and__

    def __or__(self, o):
        return SymBool(self.eng, z3.Or(self.e, T(o)))
    __ror__ = __or__

    def __eq__(self, o):
        if isinstance(o, (bool, SymBool)):
            return SymBool(self.eng, self.e == T(o))
        return NotImplemented

    def __ne__(self, o):
        if isinstance(o, (bool, SymBool)):
            return SymBool(self.eng, self.e != T(o))
        return NotImplemented

    def __hash__(self):
        return hash(bool(self))

    def __int__(self):
        return int(bool(self))
    __index__ = __int__

    def __repr__(self):
        return 'SymBool(%s)' % self.e


class SymInt:
    __slots__ = ('eng', 'e')

    def __init__(self, eng, e):
        self.eng = eng
        self.e = e

    def __index__(self):
        return self.eng.concretize(self.e)
    __int__ = __index__

    def __hash__(self):
        return hash(self.__index__())

    def __bool__(self):
        return self.eng.decide(self.e != 0)

    def __eq__(self, o):
        if isinstance(o, (int, SymInt)):
            return SymBool(self.eng, self.e == TI(o))
        return False

    def __ne__(self, o):
        if isinstance(o, (int, SymInt)):
            return SymBool(self.eng, self.e != TI(o))
        return True

    def __lt__(self, o):
        return SymBool(self.eng, self.e < TI(o))

    def __le__(self, o):
        return SymBool(self.eng, self.e <= TI(o))

    def __gt__(self, o):
        return SymBool(self.eng, self.e > TI(o))

    def __ge__(self, o):
        return SymBool(self.eng, self.e >= TI(o))

    def __add__(self, o):
        return SymInt(self.eng, self.e + TI(o))
    __radd__ = __add__

    def __sub__(self, o):
        return SymInt(self.eng, self.e - TI(o))

    def __rsub__(self, o):
        return SymInt(self.eng, TI(o) - self.e)

    def __mul__(self, o):
        return SymInt(self.eng, self.e * TI(o))
    __rmul__ = __mul__

    def __neg__(self):
        return SymInt(self.eng, -self.e)

    def __str__(self):
        return str(self.__index__())
    __repr__ = __str__

    def __format__(self, spec):
        return format(self.__index__(), spec)
