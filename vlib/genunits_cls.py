"""Declaration units of the generator: the members of a class (gen_class_decl with the real _select_superclass,
gen_class_fields, gen_class_functions, _gen_func_from_existing, _gen_type_params_from_existing, gen_func_decl,
gen_field_decl) and stand-alone function declarations (gen_func_decl with the real parameter / default / vararg /
return type / body logic), under a symbolic RNG, with generate_expr replaced by the contract stub.

World `inheritance` (all declared in the real Context):
  Aa            open regular class, field fa: Int (final, can_override symbolic), method ma(k: Int): Int (finality symbolic)
  Bb : Aa       final
  Pa            abstract; field pf: Int (final, overridable); am(x: Int): Aa abstract; cm(): Int concrete, open;
                fm(): String concrete, final
  Pb : Pa       abstract; optionally implements am (symbolic); bm(): Bb abstract
  Gg<GT>        final generic class
  Pg<T>         abstract generic; fields pgf: T and pgg: Gg<T> (final, overridable); gm(t: T): T abstract;
                optionally <F_X : T> pm(x: F_X): F_X abstract (symbolic)
  Ii            interface; im(y: Int): Int
The superclass offered to the class under construction is a symbolic selector (every other inheritable class is marked
as under construction); class kind, finality and all later decisions are RNG draws.

The obligations are judged by an own walk over the declarations (nearest declaration of a name up the chain, the
substitution composed along the chain on snapshot terms of vlib/ref.py) -- not by get_abstract_functions /
get_overridable_functions of the code under test.
"""
import re as _re

from src import utils
from src.ir import ast, types as tp
from src.ir.context import Context
from src.generators.generator import Generator
from src.generators import utils as gu

from vlib.symex import Ob
from vlib.symrandom import installed, config
from vlib.ref import World, show
from vlib.genunits import Hole, G

SUPERS = ['none', 'Aa', 'Pa', 'Pb', 'Pg', 'Ii']


class W_:
    pass


def _fn(name, params, ret, body, final, tparams=()):
    return ast.FunctionDeclaration(name, params, ret, body, ast.FunctionDeclaration.CLASS_METHOD, is_final=final,
                                   type_parameters=list(tparams))


def make_world(eng, lang):
    w = W_()
    g = Generator(language=lang)
    g.context = Context()
    f = g.bt_factory
    w.g, w.f, w.lang, w.eng = g, f, lang, eng
    INT, STR = f.get_integer_type(), f.get_string_type()
    w.INT, w.STR, w.VOID = INT, STR, f.get_void_type()
    REG, ABS, INTF = ast.ClassDeclaration.REGULAR, ast.ClassDeclaration.ABSTRACT, ast.ClassDeclaration.INTERFACE
    P = ast.ParameterDeclaration
    B = ast.BottomConstant
    fa_over = bool(eng.fresh_bool('fa_can_override'))
    ma_final = bool(eng.fresh_bool('ma_final'))
    Aa = ast.ClassDeclaration('Aa', [], REG, fields=[ast.FieldDeclaration('fa', INT, is_final=True, can_override=fa_over)],
                              functions=[_fn('ma', [P('k', INT)], INT, B(INT), ma_final)], is_final=False)
    Bb = ast.ClassDeclaration('Bb', [ast.SuperClassInstantiation(Aa.get_type(), [ast.IntegerConstant(1, INT)])], REG,
                              fields=[], functions=[], is_final=True)
    Pa = ast.ClassDeclaration('Pa', [], ABS, fields=[ast.FieldDeclaration('pf', INT, is_final=True, can_override=True)],
                              functions=[_fn('am', [P('x', INT)], Aa.get_type(), None, False),
                                         _fn('cm', [], INT, B(INT), False),
                                         _fn('fm', [], STR, B(STR), True)], is_final=False)
    pb_funcs = [_fn('bm', [], Bb.get_type(), None, False)]
    w.pb_implements_am = bool(eng.fresh_bool('Pb_implements_am'))
    if w.pb_implements_am:
        impl = _fn('am', [P('x', INT)], Aa.get_type(), B(Aa.get_type()), False)
        impl.override = True
        pb_funcs.insert(0, impl)
    Pb = ast.ClassDeclaration('Pb', [ast.SuperClassInstantiation(Pa.get_type(), [ast.IntegerConstant(2, INT)])], ABS,
                              fields=[], functions=pb_funcs, is_final=False)
    T = tp.TypeParameter('T')
    pg_funcs = [_fn('gm', [P('t', T)], T, None, False)]
    w.pg_has_pm = bool(eng.fresh_bool('Pg_has_parameterized_method'))
    if w.pg_has_pm:
        FX = tp.TypeParameter('F_X', bound=T)
        pg_funcs.append(_fn('pm', [P('x', FX)], FX, None, False, [FX]))
    GT = tp.TypeParameter('GT')
    Gg = ast.ClassDeclaration('Gg', [], REG, fields=[], functions=[], is_final=True, type_parameters=[GT])
    w.Gg = Gg
    Pg = ast.ClassDeclaration('Pg', [], ABS, fields=[ast.FieldDeclaration('pgf', T, is_final=True, can_override=True),
                                                     ast.FieldDeclaration('pgg', Gg.get_type().new([T]), is_final=True,
                                                                          can_override=True)],
                              functions=pg_funcs, is_final=False, type_parameters=[T])
    Ii = ast.ClassDeclaration('Ii', [], INTF, fields=[], functions=[_fn('im', [P('y', INT)], INT, None, False)], is_final=False)
    w.classes = dict(Aa=Aa, Bb=Bb, Pa=Pa, Pb=Pb, Gg=Gg, Pg=Pg, Ii=Ii)
    for c in w.classes.values():
        g.context.add_class(G, c.name, c)
        for tpar in c.type_parameters:
            g.context.add_type(G + (c.name,), tpar.name, tpar)
        for fld in c.fields:
            g.context.add_var(G + (c.name,), fld.name, fld)
        for fn in c.functions:
            g.context.add_func(G + (c.name,), fn.name, fn)
            for p in fn.params:
                g.context.add_var(G + (c.name, fn.name), p.name, p)
            for tpar in fn.type_parameters:
                g.context.add_type(G + (c.name, fn.name), tpar.name, tpar)
    g.namespace = G
    g.ret_builtin_types = [INT, STR]
    g.builtin_types = g.ret_builtin_types + [w.VOID]
    g.function_types = []
    r = World()
    r.top = r.snap(f.get_any_type())
    for c in w.classes.values():
        r.snap(c.get_type())
    w.ref = r
    w.requests = []

    def generate_expr(expr_type=None, only_leaves=False, subtype=True, exclude_var=False, gen_bottom=False,
                      sam_coercion=False):
        w.requests.append(dict(type=expr_type, subtype=subtype, gen_bottom=gen_bottom, depth=g.depth,
                               namespace=tuple(g.namespace), java_lambda=bool(g._inside_java_lambda),
                               in_super_call=bool(g._in_super_call)))
        return Hole(None if gen_bottom else expr_type, w.requests[-1])
    g.generate_expr = generate_expr
    return w


# ------------------------------------------------------------------ own walk over the declarations
def chain(w, cls_decl):
    """[(declaration, {type parameter name -> snapshot term})] from the direct superclass upwards; the maps are
    composed so that they translate into the vocabulary of cls_decl"""
    out = []
    m_down = None
    cur = cls_decl
    seen = set()
    while cur.superclasses and cur.name not in seen:
        seen.add(cur.name)
        st = cur.superclasses[0].class_type
        sup = w.classes.get(st.name) or w.new_classes.get(st.name)
        if sup is None:
            break
        args = [w.ref.snap(a) for a in getattr(st, 'type_args', [])]
        if m_down is not None:
            args = [w.ref.subst(a, m_down) for a in args]
        m = {p.name: a for p, a in zip(sup.type_parameters, args)}
        out.append((sup, m))
        m_down = m
        cur = sup
    return out


def nearest(w, cls_decl, attr):
    """name -> (member, owner declaration, map) of the nearest declaration up the chain"""
    out = {}
    for sup, m in chain(w, cls_decl):
        for x in getattr(sup, attr):
            out.setdefault(x.name, (x, sup, m))
    return out


def _sig(w, fn, m, rename=None):
    """(parameter terms, return term, bounds of the type parameters) of a function under a substitution"""
    m = dict(m)
    if rename:
        m.update(rename)
    # the function's own type parameters are not replaced by the class substitution
    own = {t.name for t in fn.type_parameters}
    mm = {k: v for k, v in m.items() if k not in own or (rename and k in rename)}
    ps = tuple(w.ref.subst(w.ref.snap(p.get_type()), mm) for p in fn.params)
    rt = w.ref.subst(w.ref.snap(fn.get_type()), mm)
    bs = tuple(w.ref.subst(w.ref.snap(t.bound), mm) if t.bound is not None else None for t in fn.type_parameters)
    return ps, rt, bs


def _strip_bounds(t):
    """type-variable terms compared by name (the bound is compared separately)"""
    if t is None:
        return None
    if t[0] == 'V':
        return ('V', t[1], None)
    if t[0] == 'W':
        return ('W', t[1], _strip_bounds(t[2]))
    if t[0] == 'P':
        return ('P', t[1], tuple(_strip_bounds(a) for a in t[2]))
    return t


def type_vars(t, out=None):
    out = set() if out is None else out
    if t is None:
        return out
    if t[0] == 'V':
        out.add(t[1])
        type_vars(t[2], out)
    elif t[0] == 'W':
        type_vars(t[2], out)
    elif t[0] == 'P':
        for a in t[2]:
            type_vars(a, out)
    return out


# ------------------------------------------------------------------ unit: members of a class
def run_class_members(eng, lang, sym_draws=8, max_fields=1, max_funcs=2):
    w = make_world(eng, lang)
    g = w.g
    sup_i = int(eng.fresh_int(0, len(SUPERS) - 1, 'offered_superclass'))
    offered = SUPERS[sup_i]
    own_tparam = bool(eng.fresh_bool('class_has_type_parameter'))
    g._blacklisted_classes = {n for n in ('Aa', 'Pa', 'Pb', 'Pg', 'Ii') if n != offered}
    w.new_classes = {}
    TN = tp.TypeParameter('TN')
    orig_gtp = g.gen_type_params

    def gen_type_params(count=None, with_variance=False, blacklist=None, for_function=False):
        if for_function:
            return []
        return [TN] if own_tparam else []
    g.gen_type_params = gen_type_params
    pool = [w.INT, w.classes['Aa'].get_type(), w.STR]
    w.sel = 0

    def select_type(*a, **k):
        w.sel += 1
        return pool[w.sel % len(pool)]
    g.select_type = select_type
    g.get_types = lambda **k: [w.classes['Aa'].get_type(), w.classes['Bb'].get_type(), w.INT]
    case = dict(unit='class_members', language=lang, offered_superclass=offered, class_has_type_parameter=own_tparam,
                Pb_implements_am=w.pb_implements_am, Pg_has_parameterized_method=w.pg_has_pm,
                fa_can_override=w.classes['Aa'].fields[0].can_override, ma_final=w.classes['Aa'].functions[0].is_final)
    entry = dict(namespace=tuple(g.namespace), depth=g.depth, blacklist=set(g._blacklisted_classes))
    with installed(eng, max_draws=600, max_sym_draws=sym_draws) as rnd, \
            config(limits__max_depth=6, prob__parameterized_functions=0.0):
        from src.generators.config import cfg
        saved = (cfg.limits.cls.max_fields, cfg.limits.cls.max_funcs, cfg.limits.fn.max_params, cfg.limits.fn.max_side_effects)
        cfg.limits.cls.max_fields, cfg.limits.cls.max_funcs = max_fields, max_funcs
        cfg.limits.fn.max_params, cfg.limits.fn.max_side_effects = 1, 0
        try:
            res = g.gen_class_decl()
            exc = None
        except Exception as e:      # noqa
            res, exc = None, e
        finally:
            (cfg.limits.cls.max_fields, cfg.limits.cls.max_funcs, cfg.limits.fn.max_params,
             cfg.limits.fn.max_side_effects) = saved
        log = list(rnd.log)
    case['rng'] = log[:10]
    out = []
    if exc is not None:
        eng.event('exception')
        import traceback
        tb = traceback.extract_tb(exc.__traceback__)[-1]
        return [('C18', Ob('no-exception|class_members|%s|%s' % (lang, type(exc).__name__), False,
                           dict(case, exception=repr(exc), where='%s:%s' % (tb.filename.split('/')[-1], tb.name))))], case
    out.append(('C18', Ob('no-exception|class_members|%s' % lang, True)))
    cls = res
    w.new_classes[cls.name] = cls
    U = 'class_members'
    kind = {ast.ClassDeclaration.REGULAR: 'regular', ast.ClassDeclaration.ABSTRACT: 'abstract',
            ast.ClassDeclaration.INTERFACE: 'interface'}[cls.class_type]
    sup_name = cls.superclasses[0].class_type.name if cls.superclasses else None
    case.update(kind=kind, final=cls.is_final, superclass=str(cls.superclasses[0].class_type) if cls.superclasses else None,
                fields=['%s%s: %s' % ('override ' if x.override else '', x.name, x.get_type()) for x in cls.fields],
                functions=['%s%s(%s): %s%s' % ('override ' if x.override else '', x.name,
                                               ', '.join(str(p.get_type()) for p in x.params), x.get_type(),
                                               '' if x.body is not None else ' [abstract]') for x in cls.functions])
    eng.event('unit:class_members')
    eng.event('kind:' + kind)
    if sup_name:
        eng.event('super:' + sup_name)
    if any(x.override for x in cls.functions):
        eng.event('overriding-method')
    if any(x.override and x.type_parameters for x in cls.functions):
        eng.event('overriding-parameterized-method')
    if any(x.override for x in cls.fields):
        eng.event('overriding-field')
    if any(not x.override for x in cls.functions):
        eng.event('fresh-method')
    # ---- bookkeeping restored
    out.append(('C05', Ob(U + '|scope-depth-blacklist-restored', tuple(g.namespace) == entry['namespace'] and
                          g.depth == entry['depth'] and g._blacklisted_classes == entry['blacklist'], case)))
    out.append(('C18', Ob('depth-restored|class_members', g.depth == entry['depth'], case)))
    # ---- superclass admissible
    if sup_name:
        sd = w.classes[sup_name]
        out.append(('C01', Ob(U + '|superclass-not-final', not sd.is_final, case)))
        out.append(('C01', Ob(U + '|superclass-is-the-offered-one', sup_name == offered, case)))
        out.append(('C01', Ob(U + '|interface-extends-interface-only', kind != 'interface' or sd.is_interface(), case)))
        targs = getattr(cls.superclasses[0].class_type, 'type_args', [])
        out.append(('C01', Ob(U + '|one-type-argument-per-parameter-of-the-superclass', len(targs) == len(sd.type_parameters), case)))
    members_f = nearest(w, cls, 'functions')
    members_v = nearest(w, cls, 'fields')
    own_funcs = {}
    for fn in cls.functions:
        own_funcs.setdefault(fn.name, []).append(fn)
    # ---- names
    names = [x.name for x in cls.fields] + [x.name for x in cls.functions]
    out.append(('C05', Ob(U + '|member-names-unique-within-the-class', len(names) == len(set(names)), dict(case, names=names))))
    # ---- abstract members implemented (regular classes)
    if kind == 'regular':
        for name, (f0, owner, m) in members_f.items():
            if f0.body is None:
                impl = [x for x in own_funcs.get(name, []) if x.body is not None]
                out.append(('C01', Ob(U + '|abstract-member-implemented', bool(impl),
                                      dict(case, abstract_member='%s.%s' % (owner.name, name)))))
        for fn in cls.functions:
            out.append(('C01', Ob(U + '|regular-class-has-no-abstract-member', fn.body is not None, dict(case, member=fn.name))))
    if kind == 'interface':
        out.append(('C01', Ob(U + '|interface-has-no-fields', not cls.fields, case)))
        for fn in cls.functions:
            out.append(('C01', Ob(U + '|interface-methods-have-no-body', fn.body is None, dict(case, member=fn.name))))
    # ---- every function: signature, override compatibility, registration
    cls_tvars = {t.name for t in cls.type_parameters}
    for fn in cls.functions:
        c2 = dict(case, member=fn.name)
        hit = members_f.get(fn.name)
        if fn.override:
            out.append(('C01', Ob(U + '|override-has-an-overridden-member', hit is not None, c2)))
        else:
            out.append(('C01', Ob(U + '|same-name-as-inherited-member-only-with-override', hit is None, c2)))
        if hit is not None:
            f0, owner, m = hit
            c2['overridden'] = '%s.%s' % (owner.name, f0.name)
            out.append(('C01', Ob(U + '|overridden-member-is-not-final', not f0.is_final, c2)))
            out.append(('C01', Ob(U + '|override-flag-set', bool(fn.override), c2)))
            ok_arity = len(fn.params) == len(f0.params) and len(fn.type_parameters) == len(f0.type_parameters)
            out.append(('C01', Ob(U + '|override-same-arity', ok_arity, c2)))
            if ok_arity:
                rename = {a.name: ('V', b.name, None) for a, b in zip(f0.type_parameters, fn.type_parameters)}
                ps0, rt0, bs0 = _sig(w, f0, m, rename)
                ps1 = tuple(w.ref.snap(p.get_type()) for p in fn.params)
                rt1 = w.ref.snap(fn.get_type())
                bs1 = tuple(w.ref.snap(t.bound) if t.bound is not None else None for t in fn.type_parameters)
                c2.update(expected_signature='(%s): %s' % (', '.join(show(p) for p in ps0), show(rt0)),
                          got_signature='(%s): %s' % (', '.join(show(p) for p in ps1), show(rt1)))
                out.append(('C01', Ob(U + '|override-parameter-types-equal',
                                      tuple(map(_strip_bounds, ps0)) == tuple(map(_strip_bounds, ps1)), c2)))
                r0, r1 = _strip_bounds(rt0), _strip_bounds(rt1)
                out.append(('C01', Ob(U + '|override-return-type-compatible', r0 == r1 or w.ref.sub(rt1, rt0), c2)))
                out.append(('C01', Ob(U + '|override-type-parameter-bounds-equal',
                                      tuple(map(_strip_bounds, bs0)) == tuple(map(_strip_bounds, bs1)),
                                      dict(c2, expected_bounds=[show(b) for b in bs0], got_bounds=[show(b) for b in bs1]))))
        # type variables in scope
        used = set()
        for p in fn.params:
            type_vars(w.ref.snap(p.get_type()), used)
        type_vars(w.ref.snap(fn.get_type()), used)
        for t in fn.type_parameters:
            if t.bound is not None:
                type_vars(w.ref.snap(t.bound), used)
        scope = cls_tvars | {t.name for t in fn.type_parameters}
        out.append(('C05', Ob(U + '|type-variables-of-the-signature-in-scope', used <= scope,
                              dict(c2, used=sorted(used), in_scope=sorted(scope)))))
        out.append(('C17', Ob(U + '|function-type-parameters-invariant',
                              all(t.variance == tp.Invariant for t in fn.type_parameters), c2)))
        # registration
        ns = G + (cls.name,)
        out.append(('C05', Ob(U + '|method-registered-in-the-class-scope', g.context.get_funcs(ns, only_current=True).get(fn.name) is fn, c2)))
        regp = g.context.get_vars(ns + (fn.name,), only_current=True)
        out.append(('C05', Ob(U + '|parameters-registered-in-the-method-scope', all(regp.get(p.name) is p for p in fn.params), c2)))
        out.append(('C05', Ob(U + '|parameter-names-unique', len({p.name for p in fn.params}) == len(fn.params), c2)))
        out.append(('C05', Ob(U + '|method-kind-is-class-method', fn.func_type == ast.FunctionDeclaration.CLASS_METHOD, c2)))
        # body request
        if fn.body is not None:
            reqs = [r for r in w.requests if r['namespace'] == ns + (fn.name,) and not r['in_super_call']]
            out.append(('C01', Ob(U + '|body-requested-in-the-method-scope', bool(reqs), c2)))
            if reqs and fn.get_type() != w.VOID:
                last = reqs[0]
                a, b = w.ref.snap(last['type']), w.ref.snap(fn.get_type())
                out.append(('C01', Ob(U + '|body-type-fits-return-type', _strip_bounds(a) == _strip_bounds(b) or w.ref.sub(a, b),
                                      dict(c2, requested=str(last['type']), return_type=str(fn.get_type())))))
    # ---- fields
    for fld in cls.fields:
        c2 = dict(case, member=fld.name)
        hit = members_v.get(fld.name)
        if fld.override:
            out.append(('C01', Ob(U + '|override-has-an-overridden-field', hit is not None, c2)))
        else:
            out.append(('C01', Ob(U + '|same-name-as-inherited-field-only-with-override', hit is None, c2)))
        if hit is not None:
            f0, owner, m = hit
            c2['overridden'] = '%s.%s' % (owner.name, f0.name)
            out.append(('C01', Ob(U + '|overridden-field-is-overridable', bool(f0.can_override), c2)))
            want = w.ref.subst(w.ref.snap(f0.get_type()), m)
            got = w.ref.snap(fld.get_type())
            out.append(('C01', Ob(U + '|overriding-field-type-compatible', _strip_bounds(want) == _strip_bounds(got) or
                                  (f0.is_final and w.ref.sub(got, want)),
                                  dict(c2, expected=show(want), got=show(got)))))
            out.append(('C01', Ob(U + '|overriding-field-keeps-finality', fld.is_final == f0.is_final, c2)))
        used = type_vars(w.ref.snap(fld.get_type()))
        out.append(('C05', Ob(U + '|type-variables-of-the-field-in-scope', used <= cls_tvars, dict(c2, used=sorted(used)))))
        out.append(('C05', Ob(U + '|field-registered-in-the-class-scope',
                              g.context.get_vars(G + (cls.name,), only_current=True).get(fld.name) is fld, c2)))
    # ---- constructor arguments of the superclass
    if sup_name and not w.classes[sup_name].is_interface():
        sd = w.classes[sup_name]
        inst = cls.superclasses[0]
        out.append(('C05', Ob(U + '|one-constructor-argument-per-superclass-field',
                              inst.args is not None and len(inst.args) == len(sd.fields), case)))
        m = chain(w, cls)[0][1]
        for fld, arg in zip(sd.fields, inst.args or []):
            want = w.ref.subst(w.ref.snap(fld.get_type()), m)
            if isinstance(arg, Hole) and arg.t is not None:
                got = w.ref.snap(arg.t)
                out.append(('C01', Ob(U + '|constructor-argument-fits-superclass-field', got == want or w.ref.sub(got, want),
                                      dict(case, field=fld.name, expected=show(want), got=show(got)))))
    # (the order of the members follows the iteration order of a set of declarations: observe an order-free summary)
    case['result'] = '%s %s : %s {%s}' % (kind, cls.name, sup_name, ', '.join(sorted(names)))
    return out, case


# ------------------------------------------------------------------ unit: a function declaration
PLACES = ['top-level', 'nested', 'method-open-class', 'method-final-class']


def run_func_decl(eng, lang, sym_draws=8):
    w = make_world(eng, lang)
    g = w.g
    place = PLACES[int(eng.fresh_int(0, len(PLACES) - 1, 'place'))]
    entry = {}
    ARR = w.f.get_array_type().new([w.INT]) if lang != 'kotlin' else None
    if lang == 'kotlin':
        from src.ir import kotlin_types as kt
        ARR = kt.IntArray if hasattr(kt, 'IntArray') else None
    if lang == 'scala':
        from src.ir import scala_types as sc
        ARR = sc.SeqType().new([w.INT]) if hasattr(sc, 'SeqType') else ARR
    pool = [w.INT, w.classes['Aa'].get_type(), w.STR] + ([ARR] if ARR is not None else [])
    outer = ast.FunctionDeclaration('outer', [ast.ParameterDeclaration('op', w.INT)], w.VOID, None, ast.FunctionDeclaration.FUNCTION)
    g.context.add_func(G, 'outer', outer)
    g.context.add_var(G + ('outer',), 'op', outer.params[0])
    cls_final = place == 'method-final-class'
    if place == 'top-level':
        g.namespace = G
    elif place == 'nested':
        g.namespace = G + ('outer',)
    else:
        g.namespace = G + ('Aa',)
    FT = tp.TypeParameter('F_T')
    FB = tp.TypeParameter('F_B', bound=w.classes['Aa'].get_type())
    FU = tp.TypeParameter('F_U', bound=FT)
    tp_choice = int(eng.fresh_int(0, 3, 'type_parameters_offered'))
    offered = [[], [FT], [FT, FB], [FT, FU]][tp_choice]
    w.given = []

    def gen_type_params(*a, **k):
        # what the real gen_type_params does with its result: registers it in the current scope
        for t in offered:
            g.context.add_type(g.namespace, t.name, t)
        w.given = list(offered)
        return list(offered)
    g.gen_type_params = gen_type_params

    def select_type(*a, **k):
        # parameter / return types: the pool and the type variables handed out, chosen by the RNG
        return utils.random.choice(pool + w.given)
    g.select_type = select_type
    # the body generation may declare things on the fly in the function's own scope (a helper function for a call, a
    # variable): symbolic side effects of the contract stub
    sk = int(eng.fresh_int(0, 2, 'body_generation_declares'))      # nothing / a helper function / a variable
    side = dict(func=sk == 1, var=sk == 2, made=[])
    stub = g.generate_expr

    def generate_expr(expr_type=None, *a, **k):
        here = tuple(g.namespace)
        if len(here) > len(entry['namespace']) and not side['made']:
            if side['func']:
                d = ast.FunctionDeclaration('hlp', [], w.INT, ast.BottomConstant(w.INT), ast.FunctionDeclaration.FUNCTION)
                g.context.add_func(here, 'hlp', d)
                side['made'].append(d)
            if side['var']:
                d = ast.VariableDeclaration('hv', ast.BottomConstant(w.INT), is_final=True, var_type=w.INT)
                g.context.add_var(here, 'hv', d)
                side['made'].append(d)
            side['made'].append(None)
        return stub(expr_type, *a, **k)
    g.generate_expr = generate_expr
    has_etype = bool(eng.fresh_bool('expected_return_type_given'))
    etype = w.classes['Aa'].get_type() if has_etype else None
    case = dict(unit='func_decl', language=lang, place=place, offered_type_parameters=[str(t) for t in offered],
                expected_return_type=str(etype), body_generation_declares=[k for k in ('func', 'var') if side[k]])
    entry.update(namespace=tuple(g.namespace), depth=g.depth, java_lambda=bool(g._inside_java_lambda))
    pf = eng.fresh_bool('parameterized_functions_enabled')
    with installed(eng, max_draws=600, max_sym_draws=sym_draws) as rnd, \
            config(limits__max_depth=6, prob__parameterized_functions=1.0 if bool(pf) else 0.0):
        from src.generators.config import cfg
        saved = (cfg.limits.fn.max_params, cfg.limits.fn.max_side_effects)
        cfg.limits.fn.max_params, cfg.limits.fn.max_side_effects = 2, 1
        try:
            res = g.gen_func_decl(etype=etype, class_is_final=cls_final)
            exc = None
        except Exception as e:      # noqa
            res, exc = None, e
        finally:
            cfg.limits.fn.max_params, cfg.limits.fn.max_side_effects = saved
        log = list(rnd.log)
    case['rng'] = log[:10]
    case['parameterized_functions_enabled'] = bool(pf)
    if exc is not None:
        eng.event('exception')
        import traceback
        tb = traceback.extract_tb(exc.__traceback__)[-1]
        return [('C18', Ob('no-exception|func_decl|%s|%s' % (lang, type(exc).__name__), False,
                           dict(case, exception=repr(exc), where='%s:%s' % (tb.filename.split('/')[-1], tb.name))))], case
    out = [('C18', Ob('no-exception|func_decl|%s' % lang, True))]
    fn = res
    U = 'func_decl'
    eng.event('unit:func_decl')
    eng.event('place:' + place)
    case.update(declared='%s<%s>(%s): %s' % (fn.name, ', '.join(str(t) for t in fn.type_parameters),
                                             ', '.join('%s%s: %s%s' % ('vararg ' if p.vararg else '', p.name, p.get_type(),
                                                                       ' = ..' if p.default is not None else '') for p in fn.params),
                                             fn.get_type()))
    ns = entry['namespace'] + (fn.name,)
    out.append(('C05', Ob(U + '|scope-depth-lambda-flag-restored', tuple(g.namespace) == entry['namespace'] and
                          g.depth == entry['depth'] and bool(g._inside_java_lambda) == entry['java_lambda'], case)))
    out.append(('C18', Ob('depth-restored|func_decl', g.depth == entry['depth'], case)))
    out.append(('C05', Ob(U + '|function-registered-in-the-enclosing-scope',
                          g.context.get_funcs(entry['namespace'], only_current=True).get(fn.name) is fn, case)))
    regp = g.context.get_vars(ns, only_current=True)
    out.append(('C05', Ob(U + '|parameters-registered-in-the-function-scope', all(regp.get(p.name) is p for p in fn.params), case)))
    out.append(('C05', Ob(U + '|parameter-names-unique', len({p.name for p in fn.params}) == len(fn.params), case)))
    if place.startswith('method'):
        out.append(('C05', Ob(U + '|method-added-to-its-class', fn in w.classes['Aa'].functions, case)))
        out.append(('C01', Ob(U + '|method-of-final-class-is-final', not cls_final or fn.is_final, case)))
    # varargs: at most one, last, of an array type, never together with a default
    va = [i for i, p in enumerate(fn.params) if p.vararg]
    out.append(('C05', Ob(U + '|at-most-one-vararg-and-last', len(va) <= 1 and (not va or va[0] == len(fn.params) - 1), case)))
    for i in va:
        t = fn.params[i].get_type()
        out.append(('C05', Ob(U + '|vararg-parameter-has-an-array-type', getattr(t, 'name', '') in ('Array', 'Seq') or
                              'Array' in type(getattr(t, 't_constructor', t)).__name__ or 'Array' in str(t), case)))
    # defaults: value requested with the parameter's type, in the enclosing scope (it cannot see the other parameters)
    for p in fn.params:
        if p.default is not None:
            d = p.default
            ok = isinstance(d, Hole) and d.t is not None
            out.append(('C01', Ob(U + '|default-value-is-a-requested-expression', ok, dict(case, parameter=p.name))))
            if ok:
                a, b = w.ref.snap(d.t), w.ref.snap(p.get_type())
                out.append(('C01', Ob(U + '|default-value-fits-parameter-type', _strip_bounds(a) == _strip_bounds(b) or w.ref.sub(a, b),
                                      dict(case, parameter=p.name, requested=str(d.t)))))
                out.append(('C05', Ob(U + '|default-value-generated-outside-the-function-scope',
                                      d.req['namespace'] == entry['namespace'], dict(case, parameter=p.name,
                                                                                     generated_in=list(d.req['namespace'])))))
            out.append(('C05', Ob(U + '|no-default-values-in-java', lang not in ('java',), dict(case, parameter=p.name))))
    # type parameters
    tps = fn.type_parameters
    out.append(('C17', Ob(U + '|function-type-parameters-invariant', all(t.variance == tp.Invariant for t in tps), case)))
    out.append(('C17', Ob(U + '|no-type-parameters-when-parameterized-functions-disabled', bool(pf) or not tps, case)))
    out.append(('C05', Ob(U + '|nested-functions-are-not-parameterized', place != 'nested' or not tps, case)))
    used = set()
    for p in fn.params:
        type_vars(w.ref.snap(p.get_type()), used)
    type_vars(w.ref.snap(fn.get_type()), used)
    for t in tps:
        if t.bound is not None:
            type_vars(w.ref.snap(t.bound), used)
    scope = {t.name for t in tps}
    out.append(('C05', Ob(U + '|type-variables-of-the-signature-in-scope', used <= scope,
                          dict(case, used=sorted(used), in_scope=sorted(scope)))))
    regt = g.context.get_types(ns, only_current=True) if hasattr(g.context, 'get_types') else {}
    out.append(('C05', Ob(U + '|type-parameters-registered-in-the-function-scope', all(t.name in regt for t in tps),
                          dict(case, registered=sorted(regt)))))
    # return type and body
    if has_etype:
        out.append(('C01', Ob(U + '|expected-return-type-kept', w.ref.snap(fn.get_type()) == w.ref.snap(etype), case)))
    if fn.body is not None:
        breqs = [r for r in w.requests if r['namespace'] == ns]
        out.append(('C01', Ob(U + '|body-requested-in-the-function-scope', bool(breqs), case)))
        if breqs and fn.get_type() != w.VOID:
            # _gen_func_body requests the returned expression first, then the side effects that precede it in the block
            last = breqs[0]
            a, b = w.ref.snap(last['type']), w.ref.snap(fn.get_type())
            out.append(('C01', Ob(U + '|body-type-fits-return-type', _strip_bounds(a) == _strip_bounds(b) or w.ref.sub(a, b),
                                  dict(case, requested=str(last['type'])))))
        if lang == 'java':
            out.append(('C05', Ob(U + '|java-nested-function-body-generated-as-lambda',
                                  all(r['java_lambda'] == (place == 'nested') for r in breqs), case)))
        made = [d for d in side['made'] if d is not None]
        in_body = fn.body.body if isinstance(fn.body, ast.Block) else []
        for d in made:
            eng.event('declared-on-the-fly')
            out.append(('C05', Ob(U + '|declarations-made-while-generating-the-body-are-part-of-the-body',
                                  any(x is d for x in in_body), dict(case, declaration=d.name, body=type(fn.body).__name__))))
        final_expr = fn.body.body[-1] if isinstance(fn.body, ast.Block) else fn.body
        out.append(('C01', Ob(U + '|body-ends-with-the-requested-expression', isinstance(final_expr, Hole) and
                              bool(breqs) and final_expr.req is breqs[0], case)))
    else:
        out.append(('C01', Ob(U + '|only-abstract-members-lack-a-body', False, case)))
    case['result'] = case['declared']
    return out, case


UNITS = dict(class_members=run_class_members, func_decl=run_func_decl)
FUNCS = dict(class_members=[Generator.gen_class_decl, Generator._select_superclass, Generator.gen_class_fields,
                            Generator.gen_class_functions, Generator._gen_func_from_existing,
                            Generator._gen_type_params_from_existing, Generator.gen_func_decl, Generator.gen_field_decl,
                            Generator._gen_func_body, Generator._add_node_to_parent, ast.ClassDeclaration.get_abstract_functions,
                            ast.ClassDeclaration.get_overridable_functions, ast.ClassDeclaration.get_overridable_fields],
             func_decl=[Generator.gen_func_decl, Generator._gen_func_params, Generator._gen_func_params_with_default,
                        Generator.gen_param_decl, Generator._can_vararg_param, Generator._get_func_ret_type,
                        Generator._remove_unused_type_params, Generator._gen_func_body, Generator._gen_side_effects])
STUBS = ['src.utils.random -> symbolic RNG (every outcome of the first draws, later draws: first element / lower bound)',
         'Generator.generate_expr -> contract stub returning a hole of exactly the requested type (requests recorded)',
         'Generator.gen_type_params -> the offered type parameters (selector); Generator.select_type -> a small pool']
OUT = ('bodies (the contract of generate_expr is assumed); classes with more than one level of user-defined generic '
       'superclasses; more members than the stated limits; worlds other than the one described')


def harness(eng, lang, unit, aspect, **kw):
    tagged, case = UNITS[unit](eng, lang, **kw)
    eng.notes['sample'] = case
    eng.notes['observe'] = case.get('result')
    obs = [ob for a, ob in tagged if a == aspect]
    if not obs:
        obs = [Ob('no-%s-obligation-on-this-path' % aspect, True)]
    return obs


def jobs(aspect, tier, langs, units=('class_members', 'func_decl')):
    """the jobs of the declaration units for one property (aspect)"""
    from vlib.runner import Job
    out = []
    for lang in langs:
        for unit in units:
            if unit == 'class_members':
                prm = dict(sym_draws=8 if tier == 'quick' else 12, max_fields=1 if tier == 'quick' else 2, max_funcs=2)
                bounds = ('offered superclass (none, Aa, Pa, Pb, Pg<..>, Ii), own type parameter, Pb implementing am, Pg with a '
                          'parameterized abstract method, overridability of Aa.fa, finality of Aa.ma symbolic; every RNG outcome '
                          'of the first %d draws (class kind, finality, type arguments, member counts, samples), later draws '
                          'take the first element / lower bound; at most %d own field(s), %d methods, 1 parameter'
                          % (prm['sym_draws'], prm['max_fields'], prm['max_funcs']))
                events = ['unit:class_members', 'kind:regular', 'kind:abstract', 'kind:interface', 'super:Pb', 'super:Pg',
                          'overriding-method', 'overriding-parameterized-method', 'overriding-field', 'fresh-method']
            else:
                prm = dict(sym_draws=4 if tier == 'quick' else 7)
                bounds = ('place (top level, nested in a function, method of an open / final class), offered type parameters '
                          '([], [F_T], [F_T, F_B : Aa], [F_T, F_U : F_T]), expected return type given or not, '
                          'parameterized-functions switch symbolic; every RNG outcome of the first %d draws; at most 2 '
                          'parameters, 1 side effect' % prm['sym_draws'])
                events = ['unit:func_decl', 'declared-on-the-fly'] + ['place:' + p for p in PLACES]
            out.append(Job('%s-%s' % (unit, lang), harness, dict(lang=lang, unit=unit, aspect=aspect, **prm), split_depth=6,
                           functions=FUNCS[unit], stubs=STUBS, require_events=events, budget_s=2400, crosscheck_every=500,
                           bounds=bounds, outside=OUT))
    return out
