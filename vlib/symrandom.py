"""Symbolic stand-in for src.utils.random (RandomUtils): every draw returns an
arbitrary value admitted by the contract of the real method, chosen by the
engine (n-ary decision), so one exploration covers every seed.

Contracts:
  choice(seq)      any element of a non-empty seq; IndexError on an empty one
  bool(p)          False if p <= 0, True if p >= 1, arbitrary otherwise (random() in [0,1))
  integer(a, b)    any a <= n <= b
  sample(seq, k)   any k-subset in any order (k None: any size 0..len)
  word()           any element of the (reduced) word pool, which it removes
  range(a, b)      range(0, integer(a, b))
  char / str / caps  fixed representatives (identifiers are compared by equality only)
"""
import itertools

from src import utils


class SymRandom:
    def __init__(self, eng, words=None, max_draws=400, max_sym_draws=None, sym_filter=None, fixed_pick=None):
        self.eng = eng
        self.words = list(words or ['zqa', 'zqb', 'zqc', 'zqd', 'zqe', 'zqf', 'zqg', 'zqh'])
        self.pool = list(self.words)
        self.draws = 0
        self.sym_draws = 0
        self.max_sym_draws = max_sym_draws   # after this many symbolic draws: first element / False / lower bound
        self.sym_filter = sym_filter         # choice(seq) is symbolic only when sym_filter(seq) holds (others: first element)
        self.max_draws = max_draws
        self.fixed_pick = fixed_pick         # index taken by a choice that is no longer symbolic (default: 0)
        self.log = []
        self.word_mode = 'first'      # 'first': deterministic fresh word (names are interchangeable); 'any'
        self._n = 0

    def _fixed(self):
        if self.max_sym_draws is None:
            return False
        if self.sym_draws >= self.max_sym_draws:
            return True
        self.sym_draws += 1
        return False

    def _tick(self, what):
        self.draws += 1
        if self.draws > self.max_draws:
            raise RuntimeError('more than %d random draws on one path (%s)' % (self.max_draws, what))

    # ---- the RandomUtils API
    def choice(self, choices):
        self._tick('choice')
        seq = list(choices)
        if not seq:
            raise IndexError('Cannot choose from an empty sequence')
        if len(seq) > 1 and self.sym_filter is not None and not self.sym_filter(seq):
            i = 0
        else:
            if len(seq) > 1 and self._fixed():
                i = self.fixed_pick(seq) if self.fixed_pick is not None else 0
            else:
                i = self.eng.choice_index(len(seq), 'choice')
        self.log.append(('choice', len(seq), i))
        return seq[i]

    def bool(self, prob=0.5):
        self._tick('bool')
        if prob <= 0:
            return False
        if prob >= 1:
            return True
        b = False if self._fixed() else bool(self.eng.fresh_bool('rbool'))
        self.log.append(('bool', b))
        return b

    def integer(self, min_int=0, max_int=10):
        self._tick('integer')
        if min_int > max_int:
            raise ValueError('empty range for randrange() (%d, %d)' % (min_int, max_int + 1))
        n = min_int if (min_int < max_int and self._fixed()) else int(self.eng.fresh_int(min_int, max_int, 'rint'))
        self.log.append(('integer', min_int, max_int, n))
        return n

    def sample(self, choices, k=None):
        seq = list(choices)
        k = k or self.integer(0, len(seq))
        if k > len(seq):
            raise ValueError('Sample larger than population or is negative')
        out = []
        rest = list(seq)
        for _ in range(k):
            i = self.eng.choice_index(len(rest), 'sample')
            out.append(rest.pop(i))
        return out

    def word(self):
        self._tick('word')
        if not self.pool:
            raise IndexError('Cannot choose from an empty sequence')
        if self.word_mode == 'first':
            w = self.pool.pop(0)
        else:
            w = self.pool.pop(self.eng.choice_index(len(self.pool), 'word'))
        return w

    def reset_word_pool(self):
        self.pool = list(self.words)

    def remove_reserved_words(self, language):
        pass

    def char(self):
        return 'c'

    def str(self, length=5):
        self._n += 1
        return ('s%04d' % self._n)[:max(length, 1)].ljust(length, 'x')

    def caps(self, length=1, blacklist=None):
        blacklist = blacklist or []
        for c in itertools.product('ABCDEFGHIJKLMNOPQRSTUVWXYZ', repeat=length):
            s = ''.join(c)
            if s not in blacklist:
                return s
        raise RuntimeError('caps exhausted')

    def range(self, from_value, to_value):
        return range(0, self.integer(from_value, to_value))

    @property
    def r(self):
        raise RuntimeError('direct access to the Random object is not modelled')


class installed:
    """context manager: replace the methods of the shared utils.random object"""
    METHODS = ['choice', 'bool', 'integer', 'sample', 'word', 'reset_word_pool', 'char', 'str', 'caps', 'range',
               'remove_reserved_words']

    def __init__(self, eng, **kw):
        self.rnd = SymRandom(eng, **kw)

    def __enter__(self):
        self.saved = {}
        for m in self.METHODS:
            self.saved[m] = utils.random.__dict__.get(m, None)
            setattr(utils.random, m, getattr(self.rnd, m))
        return self.rnd

    def __exit__(self, *a):
        for m in self.METHODS:
            if self.saved[m] is None:
                try:
                    delattr(utils.random, m)
                except AttributeError:
                    pass
            else:
                setattr(utils.random, m, self.saved[m])
        return False


class config:
    """context manager: symbolic / fixed values written into the real cfg singleton"""

    def __init__(self, **vals):
        self.vals = vals

    def __enter__(self):
        from src.generators.config import cfg
        self.cfg = cfg
        self.saved = {}
        for k, v in self.vals.items():
            sec, name = k.split('__')
            obj = getattr(cfg, sec)
            self.saved[k] = getattr(obj, name)
            setattr(obj, name, v)
        return cfg

    def __exit__(self, *a):
        for k, v in self.saved.items():
            sec, name = k.split('__')
            setattr(getattr(self.cfg, sec), name, v)
        return False
