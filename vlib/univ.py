"""Bounded class tables ("universes") built with the real constructors of
src.ir.types from small selector tuples, plus enumerators of ground types."""
import itertools

from src.ir import types as tp, kotlin_types as kt

from vlib.ref import World

ANY = kt.Any
VAR = [tp.Invariant, tp.Covariant, tp.Contravariant]
NAMES = ['A', 'B', 'C', 'D']


class Table:
    """classes: list of SimpleClassifier; gens: list of TypeConstructor"""

    def __init__(self, classes, gens, desc):
        self.classes = classes
        self.gens = gens
        self.desc = desc

    def world(self):
        w = World()
        w.top = w.snap(ANY)
        for c in self.classes:
            w.snap(c)
        for g in self.gens:
            w.snap(g)
        w.snap(kt.Number)
        w.snap(kt.Integer)
        w.snap(kt.String)
        return w


def n_ext_bits(n):
    return n * (n - 1) // 2


def build_table(n, ext, gspecs):
    """n simple classes with upper-triangular `ext` bits (class i extends class j<i);
    gspecs: list of dicts(name, params=[(pname, variance_idx, bound_sel)], sup_sel)
      bound_sel: None | ('cls', i) | ('var', pname) | ('gen', gi, argsel)
      sup_sel:   ('any',) | ('cls', i) | ('gen', gi, [argsel...])
      argsel:    ('cls', i) | ('var', pname) | ('any',) | ('gen', gi, [argsel]) | ('out'|'in', argsel)
    """
    classes = []
    k = 0
    for i in range(n):
        sups = []
        for j in range(i):
            if ext[k]:
                sups.append(classes[j])
            k += 1
        classes.append(tp.SimpleClassifier(NAMES[i], sups or [ANY]))
    gens = []

    def arg(sel, env):
        if sel[0] == 'cls':
            return classes[sel[1]]
        if sel[0] == 'any':
            return ANY
        if sel[0] == 'var':
            return env[sel[1]]
        if sel[0] == 'gen':
            return gens[sel[1]].new([arg(a, env) for a in sel[2]])
        if sel[0] == 'out':
            return tp.WildCardType(arg(sel[1], env), tp.Covariant)
        if sel[0] == 'in':
            return tp.WildCardType(arg(sel[1], env), tp.Contravariant)
        raise KeyError(sel)
    for gs in gspecs:
        env = {}
        params = []
        for pname, v, bsel in gs['params']:
            bound = None
            if bsel is not None:
                bound = arg(bsel, env)
            p = tp.TypeParameter(pname, VAR[v], bound)
            env[pname] = p
            params.append(p)
        sup = [ANY] if gs['sup'][0] == 'any' else [arg(gs['sup'], env)]
        gens.append(tp.TypeConstructor(gs['name'], params, sup))
    return Table(classes, gens, dict(n=n, ext=list(ext), gens=gspecs))


def base_types(table, builtins=True):
    out = list(table.classes) + [ANY]
    if builtins:
        out += [kt.Number, kt.Integer]
    return out


def type_args(ts, star=True):
    out = list(ts)
    out += [tp.WildCardType(t, tp.Covariant) for t in ts]
    out += [tp.WildCardType(t, tp.Contravariant) for t in ts]
    if star:
        out.append(tp.WildCardType())
    return out


def ground_types(table, depth, world=None, wf=True, builtins=True, star=True):
    """all ground types up to `depth` levels of instantiation (well-formed w.r.t. bounds if wf)"""
    w = world or table.world()
    level = base_types(table, builtins)
    result = list(level)
    for _ in range(depth):
        new = []
        pool = type_args(result, star)
        for g in table.gens:
            for args in itertools.product(pool, repeat=len(g.type_parameters)):
                t = g.new(list(args))
                if wf and not w.within_bounds(w.snap(t)):
                    continue
                new.append(t)
        result = result + new
    return result
