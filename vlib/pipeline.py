"""Helpers shared by the pipeline properties: running the real mutations on a program,
structural diff of two IR trees, structural type rendering."""
import pickle

from src.ir import ast, types as tp
from src.transformations.type_erasure import TypeErasure
from src.transformations.type_overwriting import TypeOverwriting


def type_repr(t, depth=0):
    """structural rendering of a type: names, arguments, projections, bounds and the
    can_infer_type_args flag (which the translators read)"""
    if t is None:
        return None
    if depth > 10:
        return '...'
    if isinstance(t, tp.WildCardType):
        return ('W', t.variance.value, type_repr(t.bound, depth + 1))
    if isinstance(t, tp.TypeParameter):
        return ('V', t.name, t.variance.value, type_repr(t.bound, depth + 1))
    if isinstance(t, tp.ParameterizedType):
        return ('P', t.name, tuple(type_repr(a, depth + 1) for a in t.type_args), bool(t.can_infer_type_args))
    if isinstance(t, tp.TypeConstructor):
        return ('C', t.name, tuple(type_repr(p, depth + 1) for p in t.type_parameters))
    if isinstance(t, tp.Builtin):
        return ('B', type(t).__name__, getattr(t, 'primitive', None))
    return ('S', type(t).__name__, getattr(t, 'name', None))


def attr_repr(v):
    if isinstance(v, tp.Type):
        return ('type', type_repr(v))
    if isinstance(v, (str, int, float, bool, type(None))):
        return v
    if isinstance(v, (list, tuple)):
        if all(isinstance(x, tp.Type) for x in v) and v:
            return ('types', tuple(type_repr(x) for x in v))
        if all(isinstance(x, ast.Node) for x in v):
            return ('nodes', len(v))
        return ('seq', tuple(attr_repr(x) for x in v))
    if isinstance(v, ast.Node):
        return ('node', type(v).__name__)
    if isinstance(v, dict):
        return ('dict', len(v))
    return ('obj', type(v).__name__)


def top_decls(p):
    return list(p.context.get_declarations(ast.GLOBAL_NAMESPACE, only_current=True).values())


def irdiff(before, after):
    """[(path, attribute, before, after)] over a parallel walk of two programs of equal shape;
    a shape difference is reported as attribute '<shape>'"""
    out = []

    def walk(a, b, path):
        if type(a) is not type(b):
            out.append((path, '<shape>', type(a).__name__, type(b).__name__))
            return
        da, db = getattr(a, '__dict__', {}), getattr(b, '__dict__', {})
        for k in sorted(set(da) | set(db)):
            ra, rb = attr_repr(da.get(k, '<absent>')), attr_repr(db.get(k, '<absent>'))
            if ra != rb:
                out.append((path, k, ra, rb))
        ca = list(a.children()) if hasattr(a, 'children') else []
        cb = list(b.children()) if hasattr(b, 'children') else []
        if len(ca) != len(cb):
            out.append((path, '<shape>', len(ca), len(cb)))
            return
        for i, (x, y) in enumerate(zip(ca, cb)):
            walk(x, y, '%s/%s[%d]%s' % (path, type(x).__name__, i, ':' + str(getattr(x, 'name', '')) if hasattr(x, 'name') else ''))
    da, db = top_decls(before), top_decls(after)
    if [getattr(d, 'name', None) for d in da] != [getattr(d, 'name', None) for d in db]:
        out.append(('', '<shape>', [getattr(d, 'name', None) for d in da], [getattr(d, 'name', None) for d in db]))
        return out
    for x, y in zip(da, db):
        walk(x, y, '%s:%s' % (type(x).__name__, getattr(x, 'name', '')))
    return out


def clone(p):
    return pickle.loads(pickle.dumps(p))


def erase(p, lang, timeout=600):
    t = TypeErasure(p, lang, None, {'timeout': timeout})
    t.transform()
    return t.result(), t


def overwrite(p, lang, timeout=600):
    t = TypeOverwriting(p, lang, None, {'timeout': timeout})
    t.transform()
    return t.result(), t


def overwrite_split(p, lang, ctor_cm, run_cm, timeout=600):
    """TypeOverwriting with separate random sources for the constructor (Program.get_types instantiates
    built-in type constructors -- draws that do not influence the mutation's choices) and for transform()"""
    with ctor_cm:
        t = TypeOverwriting(p, lang, None, {'timeout': timeout})
    with run_cm:
        t.transform()
    return t.result(), t
