"""A deliberately small reference typer for IR expressions (trusted base of C03/C04):
it answers only where the type of an expression is evident from the program text and
says `None` (undecided) everywhere else.  It never calls the type-inference code of
/repo (src.ir.type_utils.get_type_hint).

Covered: constants (by their constant class and the program's built-in factory),
bottom constants (their cast type, bottom when none is recorded), `New` with explicit type arguments, variables and parameters
resolved through the program's context (innermost enclosing namespace), a block's last
expression, calls of non-generic top-level / same-class functions and of methods of non-generic
user classes (through a receiver whose type is evident) with a declared return type.  Everything else is undecided.
"""
from src.ir import ast, types as tp
from src.ir.context import get_decl


class Typer:
    def __init__(self, program):
        self.p = program
        self.f = program.bt_factory
        self.depth = 0

    def const_type(self, e):
        f = self.f
        if isinstance(e, ast.BottomConstant):
            # translated as a cast of the bottom value to its recorded type ((T) null / TODO() as T)
            return e.t if e.t is not None else tp.Nothing
        if isinstance(e, ast.IntegerConstant):
            return e.integer_type
        if isinstance(e, ast.RealConstant):
            return e.real_type
        if isinstance(e, ast.BooleanConstant):
            return f.get_boolean_type()
        if isinstance(e, ast.CharConstant):
            return f.get_char_type()
        if isinstance(e, ast.StringConstant):
            return f.get_string_type()
        return None

    def decl_type(self, d, namespace):
        """declared type of a declaration; for an erased one: the type of what it is initialised with"""
        if isinstance(d, ast.VariableDeclaration):
            if d.var_type is not None:
                return d.var_type
            return self.expr(d.expr, namespace)
        if isinstance(d, (ast.ParameterDeclaration, ast.FieldDeclaration)):
            return d.get_type()
        return None

    def expr(self, e, namespace):
        self.depth += 1
        try:
            if self.depth > 40:
                return None
            if isinstance(e, ast.Constant):
                return self.const_type(e)
            if isinstance(e, ast.New):
                t = e.class_type
                if isinstance(t, tp.ParameterizedType) and t.can_infer_type_args:
                    return None
                if t.has_type_variables() if hasattr(t, 'has_type_variables') else False:
                    return None
                return t
            if isinstance(e, ast.Variable):
                r = get_decl(self.p.context, namespace, e.name)
                if r is None:
                    return None
                ns, d = r
                return self.decl_type(d, ns)
            if isinstance(e, ast.Block):
                if not e.body:
                    return None
                last = e.body[-1]
                if isinstance(last, ast.Declaration):
                    return None
                return self.expr(last, namespace)
            if isinstance(e, ast.FunctionCall) and e.receiver is None and not e.type_args:
                r = get_decl(self.p.context, namespace, e.func)
                if r is None:
                    return None
                ns, d = r
                if isinstance(d, ast.FunctionDeclaration) and not d.type_parameters and d.ret_type is not None:
                    if d.ret_type.has_type_variables() if hasattr(d.ret_type, 'has_type_variables') else False:
                        return None
                    return d.ret_type
                return None
            if isinstance(e, ast.FunctionCall) and e.receiver is not None and not e.type_args:
                # method of a non-generic user class (own or inherited by declared name), declared return type
                rt = self.expr(e.receiver, namespace)
                if rt is None or isinstance(rt, tp.ParameterizedType) or not isinstance(rt, tp.SimpleClassifier):
                    return None
                classes = self.p.context.get_classes(ast.GLOBAL_NAMESPACE, glob=True)
                cls, seen = classes.get(rt.name), set()
                while cls is not None and cls.name not in seen:
                    seen.add(cls.name)
                    if cls.type_parameters:
                        return None
                    for fn in cls.functions:
                        if fn.name == e.func:
                            if fn.type_parameters or fn.ret_type is None:
                                return None
                            if fn.ret_type.has_type_variables() if hasattr(fn.ret_type, 'has_type_variables') else False:
                                return None
                            return fn.ret_type
                    sup = cls.superclasses[0].class_type if cls.superclasses else None
                    cls = classes.get(getattr(sup, 'name', None)) if sup is not None and not isinstance(sup, tp.ParameterizedType) else None
                return None
            return None
        finally:
            self.depth -= 1


def declarations_with_namespace(program):
    """[(namespace, declaration)] for every variable and function declaration reachable from the top level"""
    out = []

    def walk(node, ns):
        if isinstance(node, ast.ClassDeclaration):
            sub = ns + (node.name,)
            for c in node.fields + node.functions:
                walk(c, sub)
            return
        if isinstance(node, ast.FunctionDeclaration):
            out.append((ns, node))
            sub = ns + (node.name,)
            if node.body is not None:
                walk(node.body, sub)
            return
        if isinstance(node, ast.VariableDeclaration):
            out.append((ns, node))
            walk(node.expr, ns)
            return
        if isinstance(node, ast.Lambda):
            return          # lambda bodies live in shadow namespaces: not followed
        for c in (node.children() if hasattr(node, 'children') else []):
            walk(c, ns)
    for d in program.context.get_declarations(ast.GLOBAL_NAMESPACE, only_current=True).values():
        walk(d, ast.GLOBAL_NAMESPACE)
    return out
