"""Generator units under a symbolic RNG with the recursive generate_expr replaced by a
*contract stub* (assume-guarantee over the mutual recursion of the generator):

  generate_expr(T, subtype=s, gen_bottom=b, ...) returns a hole.  The stub records the
  request; the unit's obligations are stated on what it *asks for* (a hole of type T,
  or of a subtype when s is set, type-checks wherever T is accepted) and on what it
  builds around the holes.

Worlds are small symbolic scopes: classes Aa (open, field fa), Bb : Aa (final), Cc (field
fc : Aa), abstract Ab, interface Ii, generic Gg<T> (field gf : T); a function `ff` with a
parameter and up to two local variables of symbolic type/finality, a top-level variable,
optionally a nested function scope (java: a lambda, captured variables must be final).

Each unit returns obligations tagged with the property they belong to:
  C01 typing   C05 scoping / mutability / instantiability   C18 no exception
"""
import z3

from src import utils
from src.ir import ast, types as tp, type_utils as tu
from src.ir.context import Context, get_decl
from src.generators.generator import Generator
from src.generators.config import cfg

from vlib.symex import Ob
from vlib.symrandom import installed, config
from vlib.ref import World, show

G = ast.GLOBAL_NAMESPACE
LANGS = ['java', 'kotlin', 'groovy', 'scala']


class Hole(ast.BottomConstant):
    """what the contract stub returns: an expression of exactly the requested type"""

    def __init__(self, t, req):
        super().__init__(t)
        self.req = req

    def __str__(self):
        return '<hole:%s>' % (self.t,)


class World_:
    pass


def make_world(eng, lang, nvars=2, with_nested=True, projected=False, bounded=False, plain=False, functional=False, numeric=False):
    w = World_()
    if plain:
        # units that never look at the scope: one fixed world instead of the symbolic one
        class _Fixed:
            def fresh_bool(self, hint='b'):
                return False

            def fresh_int(self, lo, hi, hint='i'):
                return lo
        weng, eng = eng, _Fixed()
    else:
        weng = eng
    g = Generator(language=lang)
    g.context = Context()
    f = g.bt_factory
    w.g, w.f, w.lang, w.eng = g, f, lang, weng
    INT, STR = f.get_integer_type(), f.get_string_type()
    w.INT, w.STR = INT, STR
    fa_final = bool(eng.fresh_bool('field_fa_final'))
    A = ast.ClassDeclaration('Aa', [], ast.ClassDeclaration.REGULAR,
                             fields=[ast.FieldDeclaration('fa', INT, is_final=fa_final)], functions=[], is_final=False)
    B = ast.ClassDeclaration('Bb', [ast.SuperClassInstantiation(A.get_type(), [ast.IntegerConstant(1, INT)])],
                             ast.ClassDeclaration.REGULAR, fields=[], functions=[], is_final=True)
    C = ast.ClassDeclaration('Cc', [], ast.ClassDeclaration.REGULAR,
                             fields=[ast.FieldDeclaration('fc', A.get_type(), is_final=False)], functions=[],
                             is_final=True)
    Ab = ast.ClassDeclaration('Ab', [], ast.ClassDeclaration.ABSTRACT, fields=[], functions=[], is_final=False)
    Ii = ast.ClassDeclaration('Ii', [], ast.ClassDeclaration.INTERFACE, fields=[], functions=[], is_final=False)
    T = tp.TypeParameter('T')
    Gg = ast.ClassDeclaration('Gg', [], ast.ClassDeclaration.REGULAR, fields=[ast.FieldDeclaration('gf', T, is_final=True)],
                              functions=[], is_final=True, type_parameters=[T])
    T2 = tp.TypeParameter('T2')
    Hh = ast.ClassDeclaration('Hh', [], ast.ClassDeclaration.REGULAR,
                              fields=[ast.FieldDeclaration('hf', Gg.get_type().new([T2]), is_final=False)],
                              functions=[], is_final=True, type_parameters=[T2])
    w.classes = dict(Aa=A, Bb=B, Cc=C, Ab=Ab, Ii=Ii, Gg=Gg)
    if projected:
        w.classes['Hh'] = Hh
    for c in w.classes.values():
        g.context.add_class(G, c.name, c)
        for fld in c.fields:
            g.context.add_var(G + (c.name,), fld.name, fld)
    w.pool = [A.get_type(), B.get_type(), C.get_type(), INT, Gg.get_type().new([A.get_type()]), STR]
    w.pool_names = ['Aa', 'Bb', 'Cc', 'Int', 'Gg<Aa>', 'String']
    if bounded:
        # a class with a bounded type parameter; the expected types are its use-site projections
        T3 = tp.TypeParameter('T3', bound=B.get_type())
        Kk = ast.ClassDeclaration('Kk', [], ast.ClassDeclaration.REGULAR, fields=[], functions=[], is_final=True,
                                  type_parameters=[T3])
        w.classes['Kk'] = Kk
        g.context.add_class(G, 'Kk', Kk)
        w.pool = [Kk.get_type().new([tp.WildCardType(B.get_type(), tp.Contravariant)]),
                  Kk.get_type().new([tp.WildCardType(B.get_type(), tp.Covariant)]), Kk.get_type().new([B.get_type()])]
        w.pool_names = ['Kk<in Bb>', 'Kk<out Bb>', 'Kk<Bb>']
    if numeric and lang in ('java', 'groovy'):
        # primitive and boxed numeric types side by side (java: a primitive short is not assignable to a boxed Integer / Long)
        from src.ir import java_types as jt
        mod = jt if lang == 'java' else __import__('src.ir.groovy_types', fromlist=['x'])
        w.pool = [mod.ShortType(primitive=True), mod.IntegerType(primitive=True), mod.IntegerType(primitive=False),
                  mod.LongType(primitive=False), mod.ShortType(primitive=False)]
        w.pool_names = ['short', 'int', 'Integer', 'Long', 'Short']
    # callable declarations: top-level functions, a method of Aa, a generic function
    ma = ast.FunctionDeclaration('ma', [ast.ParameterDeclaration('k', INT)], INT, ast.BottomConstant(INT),
                                 ast.FunctionDeclaration.CLASS_METHOD)
    A.functions = [ma]
    g.context.add_func(G + ('Aa',), 'ma', ma)
    has_default = lang in ('kotlin', 'scala')
    fi = ast.FunctionDeclaration('fi', [ast.ParameterDeclaration('x', INT)], INT, ast.BottomConstant(INT),
                                 ast.FunctionDeclaration.FUNCTION)
    fb = ast.FunctionDeclaration('fb', [ast.ParameterDeclaration('a', A.get_type()),
                                        ast.ParameterDeclaration('s', INT, default=ast.IntegerConstant(3, INT) if has_default else None)],
                                 B.get_type(), ast.BottomConstant(B.get_type()), ast.FunctionDeclaration.FUNCTION)
    TF = tp.TypeParameter('F_T', bound=A.get_type())
    fg = ast.FunctionDeclaration('fg', [ast.ParameterDeclaration('t', TF)], TF, ast.BottomConstant(TF),
                                 ast.FunctionDeclaration.FUNCTION, type_parameters=[TF])
    FU = tp.TypeParameter('F_U')
    gm = ast.FunctionDeclaration('gm', [], STR, ast.BottomConstant(STR), ast.FunctionDeclaration.CLASS_METHOD,
                                 type_parameters=[FU])
    Gg.functions = [gm]
    g.context.add_func(G + ('Gg',), 'gm', gm)
    w.functions = dict(fi=fi, fb=fb, fg=fg, ma=ma, gm=gm)
    for fn in (fi, fb, fg):
        g.context.add_func(G, fn.name, fn)
    ff = ast.FunctionDeclaration('ff', [ast.ParameterDeclaration('p0', INT)], f.get_void_type(), None,
                                 ast.FunctionDeclaration.FUNCTION)
    g.context.add_func(G, 'ff', ff)
    g.context.add_var(G + ('ff',), 'p0', ff.params[0])
    w.decls = {'p0': (G + ('ff',), ff.params[0])}

    def var(name, ns):
        ti = int(eng.fresh_int(0, len(w.pool) - 1, 'type_' + name))
        fin = bool(eng.fresh_bool('final_' + name))
        v = ast.VariableDeclaration(name, ast.BottomConstant(w.pool[ti]), is_final=fin, var_type=w.pool[ti])
        g.context.add_var(ns, name, v)
        w.decls[name] = (ns, v)
        return v
    var('gv', G)
    if projected:
        # a local of a use-site projected type whose class has a non-final field mentioning the type parameter
        pt = Hh.get_type().new([tp.WildCardType(A.get_type(), tp.Covariant)])
        vp = ast.VariableDeclaration('vp', ast.BottomConstant(pt), is_final=bool(eng.fresh_bool('final_vp')), var_type=pt)
        g.context.add_var(G + ('ff',), 'vp', vp)
        w.decls['vp'] = (G + ('ff',), vp)
    if functional:
        # function-typed locals and a class with a function-typed field (targets of calls through references)
        F1 = f.get_function_type(1)
        w.sigs = dict(fr=F1.new([INT, B.get_type()]), fs=F1.new([A.get_type(), INT]),
                      ffn=F1.new([tp.WildCardType(A.get_type(), tp.Contravariant), A.get_type()]))
        for name in ('fr', 'fs'):
            v = ast.VariableDeclaration(name, ast.BottomConstant(w.sigs[name]), is_final=bool(eng.fresh_bool('final_' + name)),
                                        var_type=w.sigs[name])
            ns = G + ('ff',) if name == 'fr' or not bool(eng.fresh_bool('fs_is_global')) else G
            g.context.add_var(ns, name, v)
            w.decls[name] = (ns, v)
        Ff = ast.ClassDeclaration('Ff', [], ast.ClassDeclaration.REGULAR,
                                  fields=[ast.FieldDeclaration('ffn', w.sigs['ffn'], is_final=True)], functions=[], is_final=True)
        w.classes['Ff'] = Ff
        g.context.add_class(G, 'Ff', Ff)
        g.context.add_var(G + ('Ff',), 'ffn', Ff.fields[0])
        vf = ast.VariableDeclaration('vf', ast.BottomConstant(Ff.get_type()), is_final=bool(eng.fresh_bool('final_vf')),
                                     var_type=Ff.get_type())
        g.context.add_var(G + ('ff',), 'vf', vf)
        w.decls['vf'] = (G + ('ff',), vf)
    for i in range(nvars):
        var('v%d' % i, G + ('ff',))
    g.namespace = G + ('ff',)
    w.nested = False
    if with_nested and bool(eng.fresh_bool('nested_scope')):
        w.nested = True
        inner = ast.FunctionDeclaration('gg', [], f.get_void_type(), None, ast.FunctionDeclaration.FUNCTION)
        g.context.add_func(G + ('ff',), 'gg', inner)
        var('w0', G + ('ff', 'gg'))
        g.namespace = G + ('ff', 'gg')
        if lang == 'java':
            g._inside_java_lambda = bool(eng.fresh_bool('inside_java_lambda'))
    # reduced built-in pools (stated bound)
    g.ret_builtin_types = [INT, STR]
    if hasattr(f, 'get_primitive_types'):
        g.ret_builtin_types.append(f.get_primitive_types()[2])      # java / groovy: the primitive int as well
    g.builtin_types = g.ret_builtin_types + [f.get_void_type()]
    g.function_types = []
    # reference world
    r = World()
    r.top = r.snap(f.get_any_type())
    for c in w.classes.values():
        r.snap(c.get_type())
    w.ref = r
    # contract stub
    w.requests = []

    def generate_expr(expr_type=None, only_leaves=False, subtype=True, exclude_var=False, gen_bottom=False,
                      sam_coercion=False):
        w.requests.append(dict(type=expr_type, subtype=subtype, gen_bottom=gen_bottom, exclude_var=exclude_var,
                               only_leaves=only_leaves, depth=g.depth, namespace=tuple(g.namespace),
                               java_lambda=bool(g._inside_java_lambda),
                               visible={n: v.get_type() for n, v in g.context.get_vars(g.namespace).items()}))
        return Hole(None if gen_bottom else expr_type, w.requests[-1])
    w.real_generate_expr = g.generate_expr
    g.generate_expr = generate_expr
    return w


def assignable(w, s, t):
    """declarative assignability of a value of type s to a slot of type t (within the world's pool:
    classes, Int, String, Gg<..>)"""
    a, b = w.ref.snap(s), w.ref.snap(t)
    order = ['ByteType', 'ShortType', 'IntegerType', 'LongType', 'FloatType', 'DoubleType']
    if a[0] == 'B' and b[0] == 'B' and a[1] in order and b[1] in order and w.lang in ('java', 'groovy') \
            and hasattr(s, 'primitive') and hasattr(t, 'primitive'):
        # JLS 5.2: primitive -> primitive widening; primitive -> box only its own; box -> box identity; box -> primitive
        # unboxing then widening
        i, j = order.index(a[1]), order.index(b[1])
        if bool(s.primitive) != bool(t.primitive) and not s.primitive:
            return i <= j
        if s.primitive and t.primitive:
            return i <= j
        return i == j
    if a[0] == 'B' and b[0] == 'B' and a[1] == b[1]:
        return True
    return w.ref.sub(a, b)


def resolve(w, name, namespace):
    """innermost enclosing namespace that declares `name` (own walk over the context tables)"""
    ns = tuple(namespace)
    while ns:
        tab = w.g.context._context.get(ns, {}).get('decls', {})
        if name in tab and tab[name] is not None:
            return ns, tab[name]
        tab = w.g.context._context.get(ns, {}).get('vars', {})
        if name in tab and tab[name] is not None:
            return ns, tab[name]
        ns = ns[:-1]
    return None


def describe(w):
    return dict(language=w.lang, namespace=list(w.g.namespace), nested=w.nested,
                inside_java_lambda=bool(w.g._inside_java_lambda),
                variables={n: '%s%s in %s' % ('val ' if getattr(d, 'is_final', True) else 'var ', d.get_type(), ns[-1])
                           for n, (ns, d) in w.decls.items()})


def run_unit(eng, lang, unit, **kw):
    """-> list of (aspect, Ob)"""
    max_depth = kw.pop('max_depth', 6)
    sym_depth = kw.pop('sym_depth', False)
    sym_draws = kw.pop('sym_draws', None)
    cfgkw = dict(limits__max_depth=max_depth, limits__max_var_decls=3)
    w = make_world(eng, lang, nvars=kw.pop('nvars', 2), with_nested=kw.pop('with_nested', True),
                   projected=kw.pop('projected', False), bounded=kw.pop('bounded', False), plain=kw.pop('plain', False), functional=kw.pop('functional', False),
                   numeric=kw.pop('numeric', False))
    depth0 = int(eng.fresh_int(1, 2 * max_depth + 2, 'depth')) if sym_depth else 1
    w.g.depth = depth0
    etype_i = int(eng.fresh_int(0, len(w.pool) - 1, 'etype'))
    etype = w.pool[etype_i]
    subtype = bool(eng.fresh_bool('subtype'))
    case = dict(unit=unit, expected=w.pool_names[etype_i], subtype=subtype, **describe(w))
    out = []
    with installed(eng, max_draws=600, max_sym_draws=sym_draws) as rnd, config(**cfgkw):
        try:
            res = UNITS[unit](w, etype, subtype)
            exc = None
        except Exception as e:      # noqa
            res, exc = None, e
        log = list(rnd.log)
    case['rng'] = log[:8]
    case['requests'] = ['%s%s' % (r['type'], '' if r['subtype'] else ' (exact)') for r in w.requests][:6]
    if exc is not None:
        eng.event('exception')
        return [('C18', Ob('no-exception|%s|%s|%s' % (unit, lang, type(exc).__name__), False,
                           dict(case, exception=repr(exc))))], case
    out.append(('C18', Ob('no-exception|%s|%s' % (unit, lang), True)))
    import re as _re
    case['result'] = _re.sub(r' at 0x[0-9a-f]+', '', str(res))[:200]
    case['depth'] = depth0
    # termination measure of the mutual recursion: the depth counter is restored on exit and every recursive
    # request is issued deeper than the unit was entered (or with the variable generator excluded)
    if res is not None:       # (None: the unit wanted to create a declaration and the harness cut the path)
        out.append(('C18', Ob('depth-restored|%s' % unit, w.g.depth == depth0, dict(case, depth_after=w.g.depth))))
    slack = [r for r in w.requests if not (r['depth'] > depth0 or r['exclude_var'] or r['gen_bottom'])]
    if unit in ('gen_func_call', 'gen_field_access', 'gen_func_call_ref', 'gen_func_ref'):
        # the receiver of a call / field access is requested at the entry depth: this edge of the recursion is NOT
        # covered by the measure (the generator's own comments note that a recursion error may occur there)
        slack = [r for r in slack if not (r['type'] is not None and getattr(r['type'], 'name', None) in w.classes)]
    if unit == 'gen_assignment':
        # the assigned value is requested at the entry depth, but for a non-void type: the dispatcher selects
        # gen_assignment for the void type only, every other generator deepens
        slack = [r for r in slack if r['type'] is None or r['type'] == w.f.get_void_type()]
    if unit not in ('generate_expr', 'gen_variable_decl', 'select_superclass', 'gen_lambda', 'gen_is_expr', 'gen_matching_func', 'gen_class_decl', 'gen_array_expr', 'gen_func_ref') and res is not None:
        out.append(('C18', Ob('recursion-progress|%s' % unit, not slack,
                              dict(case, requests_at_entry_depth=[str(r['type']) for r in slack][:3]))))
    if unit == 'gen_new' and depth0 + 1 > 2 * max_depth:
        deep = [r for r in w.requests if not r['gen_bottom'] and r['type'] is not None
                and not (hasattr(r['type'], 'is_primitive') and r['type'].is_primitive())]
        out.append(('C18', Ob('constructor-arguments-cut-beyond-twice-max-depth', not deep,
                              dict(case, requests=[str(r['type']) for r in deep][:3]))))
    if unit == 'generate_expr' and depth0 >= max_depth:
        leafs = {'gen_new', 'gen_variable', 'gen_func_call', 'gen_assignment'}
        nonleaf = [n for n, _ in getattr(w, 'dispatched', []) if n not in leafs]
        out.append(('C18', Ob('only-leaf-generators-at-max-depth', not nonleaf, dict(case, dispatched=nonleaf[:3]))))
    out += CHECKS[unit](w, etype, subtype, res, case)
    eng.event('unit:%s' % unit)
    return out, case


# ------------------------------------------------------------------ units
def u_gen_variable(w, etype, subtype):
    return w.g.gen_variable(etype, only_leaves=True, subtype=subtype)


def c_gen_variable(w, etype, subtype, res, case):
    out = []
    if isinstance(res, Hole):
        r = res.req
        out.append(('C01', Ob('gen_variable|delegation-keeps-type', r['type'] is etype and r['subtype'] == subtype
                              and r['exclude_var'], case)))
        return out
    ok_shape = isinstance(res, ast.Variable)
    out.append(('C05', Ob('gen_variable|returns-variable', ok_shape, case)))
    if not ok_shape:
        return out
    r = resolve(w, res.name, w.g.namespace)
    out.append(('C05', Ob('gen_variable|resolves-in-scope', r is not None, dict(case, name=res.name))))
    if r is None:
        return out
    ns, d = r
    t = d.get_type()
    ok = assignable(w, t, etype) if subtype else (w.ref.snap(t) == w.ref.snap(etype))
    out.append(('C01', Ob('gen_variable|type-fits|subtype=%d' % subtype, ok, dict(case, name=res.name, declared=str(t)))))
    if w.g._inside_java_lambda and ns != tuple(w.g.namespace):
        out.append(('C05', Ob('gen_variable|java-lambda-captures-final-only', bool(getattr(d, 'is_final', False)),
                              dict(case, name=res.name))))
    return out


def u_gen_assignment(w, etype, subtype):
    return w.g.gen_assignment(w.f.get_void_type(), only_leaves=True, subtype=subtype)


def c_gen_assignment(w, etype, subtype, res, case):
    out = []
    ok_shape = isinstance(res, ast.Assignment)
    out.append(('C05', Ob('gen_assignment|returns-assignment', ok_shape, case)))
    if not ok_shape:
        return out
    rhs = res.expr
    if res.receiver is None:
        r = resolve(w, res.name, w.g.namespace)
        out.append(('C05', Ob('gen_assignment|target-resolves', r is not None, dict(case, target=res.name))))
        if r is None:
            return out
        ns, d = r
        out.append(('C05', Ob('gen_assignment|target-not-final', getattr(d, 'is_final', True) is False,
                              dict(case, target=res.name))))
        if w.g._inside_java_lambda:
            out.append(('C05', Ob('gen_assignment|java-lambda-does-not-assign-captured', ns == tuple(w.g.namespace),
                                  dict(case, target=res.name))))
        ttype = d.get_type()
    else:
        # field of a receiver: the receiver is a variable or a hole of a class type
        rt = None
        if isinstance(res.receiver, ast.Variable):
            rr = resolve(w, res.receiver.name, w.g.namespace)
            out.append(('C05', Ob('gen_assignment|receiver-resolves', rr is not None, case)))
            rt = rr[1].get_type() if rr else None
        elif isinstance(res.receiver, Hole):
            rt = res.receiver.t
        cls = w.classes.get(getattr(rt, 'name', None))
        fld = None
        if cls is not None:
            fld = next((x for x in inherited(w, cls, 'fields') if x.name == res.name), None)
        out.append(('C05', Ob('gen_assignment|field-exists-and-not-final', fld is not None and not fld.is_final,
                              dict(case, receiver_type=str(rt), field=res.name))))
        if fld is None:
            return out
        ttype = fld.get_type()
        if isinstance(rt, tp.ParameterizedType) and cls.type_parameters:
            ttype = tp.substitute_type(ttype, {p: a for p, a in zip(cls.type_parameters, rt.type_args)})
    projected = ttype.is_wildcard() or (ttype.is_parameterized() and ttype.has_wildcards())
    if projected:
        # nothing but a bottom value can be written into a slot whose type mentions a projection
        out.append(('C01', Ob('gen_assignment|only-bottom-into-projected-slot', isinstance(rhs, Hole) and rhs.req['gen_bottom'],
                              dict(case, target=res.name, target_type=str(ttype)))))
    if isinstance(rhs, Hole) and rhs.t is not None and not projected:
        out.append(('C01', Ob('gen_assignment|value-fits-target', assignable(w, rhs.t, ttype),
                              dict(case, target=res.name, target_type=str(ttype), value_type=str(rhs.t)))))
    return out


def u_gen_conditional(w, etype, subtype):
    return w.g.gen_conditional(etype, only_leaves=True, subtype=subtype)


def c_gen_conditional(w, etype, subtype, res, case):
    out = []
    ok_shape = isinstance(res, ast.Conditional) and all(isinstance(x, Hole) for x in (res.cond, res.true_branch, res.false_branch))
    out.append(('C01', Ob('gen_conditional|shape', ok_shape, case)))
    if not ok_shape:
        return out
    out.append(('C01', Ob('gen_conditional|condition-is-boolean',
                          w.ref.snap(res.cond.t) == w.ref.snap(w.f.get_boolean_type()), case)))
    for nm, br in (('true', res.true_branch), ('false', res.false_branch)):
        out.append(('C01', Ob('gen_conditional|%s-branch-fits-expected' % nm,
                              br.t is not None and assignable(w, br.t, etype) and br.req['subtype'] is False,
                              dict(case, branch_type=str(br.t)))))
        out.append(('C01', Ob('gen_conditional|%s-branch-below-recorded-type' % nm,
                              br.t is not None and assignable(w, br.t, res.inferred_type),
                              dict(case, branch_type=str(br.t), recorded=str(res.inferred_type)))))
    out.append(('C01', Ob('gen_conditional|recorded-type-fits-expected', assignable(w, res.inferred_type, etype)
                          if subtype else w.ref.snap(res.inferred_type) == w.ref.snap(etype),
                          dict(case, recorded=str(res.inferred_type)))))
    return out


def u_gen_new(w, etype, subtype):
    return w.g.gen_new(etype, only_leaves=True, subtype=subtype)


def c_gen_new(w, etype, subtype, res, case):
    out = []
    if isinstance(res, ast.BottomConstant) and not isinstance(res, Hole):
        out.append(('C01', Ob('gen_new|bottom-only-without-class', w.classes.get(getattr(etype, 'name', None)) is None
                              or etype.name in w.g._blacklisted_classes, case)))
        return out
    if not isinstance(res, ast.New):
        out.append(('C01', Ob('gen_new|returns-new', isinstance(res, (ast.Constant,)), case)))
        return out
    t = res.class_type
    cls = w.classes.get(getattr(t, 'name', None))
    if cls is None:
        # built-in constructed directly (top type / unit)
        out.append(('C01', Ob('gen_new|builtin-new-fits', assignable(w, t, etype), case)))
        return out
    out.append(('C05', Ob('gen_new|instantiates-regular-class-only', cls.class_type == ast.ClassDeclaration.REGULAR,
                          dict(case, instantiated=cls.name))))
    out.append(('C01', Ob('gen_new|type-fits|subtype=%d' % subtype,
                          assignable(w, t, etype) if subtype else w.ref.snap(t) == w.ref.snap(
                              etype.to_variance_free() if isinstance(etype, tp.ParameterizedType) else etype),
                          dict(case, instantiated=str(t)))))
    out.append(('C05', Ob('gen_new|one-argument-per-field', len(res.args) == len(cls.fields), case)))
    m = {p: a for p, a in zip(cls.type_parameters, getattr(t, 'type_args', []))}
    for fld, arg in zip(cls.fields, res.args):
        want = tp.substitute_type(fld.get_type(), m)
        if isinstance(arg, Hole) and arg.t is not None:
            out.append(('C01', Ob('gen_new|argument-fits-field', assignable(w, arg.t, want),
                                  dict(case, field=fld.name, field_type=str(want), argument_type=str(arg.t)))))
        if isinstance(t, tp.ParameterizedType):
            out.append(('C01', Ob('gen_new|no-type-variable-left', not want.has_type_variables(), dict(case, field=fld.name))))
    return out


def u_gen_variable_decl(w, etype, subtype):
    return w.g.gen_variable_decl(etype, only_leaves=True)


def c_gen_variable_decl(w, etype, subtype, res, case):
    out = []
    ok_shape = isinstance(res, ast.VariableDeclaration)
    out.append(('C05', Ob('gen_variable_decl|returns-declaration', ok_shape, case)))
    if not ok_shape:
        return out
    r = resolve(w, res.name, w.g.namespace)
    out.append(('C05', Ob('gen_variable_decl|registered-in-current-scope', r is not None and r[1] is res
                          and r[0] == tuple(w.g.namespace), dict(case, name=res.name))))
    out.append(('C05', Ob('gen_variable_decl|fresh-name', res.name not in w.decls and res.name not in w.classes,
                          dict(case, name=res.name))))
    if isinstance(res.expr, Hole) and res.expr.t is not None:
        out.append(('C01', Ob('gen_variable_decl|initialiser-fits-declared-type',
                              assignable(w, res.expr.t, res.var_type or res.inferred_type),
                              dict(case, declared=str(res.var_type), initialiser=str(res.expr.t)))))
    out.append(('C01', Ob('gen_variable_decl|declared-type-is-expected', w.ref.snap(res.get_type()) == w.ref.snap(etype), case)))
    return out


def u_generate_expr(w, etype, subtype):
    """the dispatcher itself: its sub-generators are replaced by recorders"""
    g = w.g
    w.dispatched = []

    def rec(name):
        def fn(t, *a, **k):
            w.dispatched.append((name, t))
            return Hole(t, dict(type=t, subtype=k.get('subtype', True), gen_bottom=False, exclude_var=False, only_leaves=False))
        return fn
    for name in ('gen_new', 'gen_variable', 'gen_func_call', 'gen_field_access', 'gen_conditional', 'gen_is_expr',
                 'gen_array_expr', 'gen_logical_expr', 'gen_assignment'):
        setattr(g, name, rec(name))
    g.gen_equality_expr = lambda only_leaves=False: rec('gen_equality_expr')(w.f.get_boolean_type())
    g.gen_comparison_expr = lambda only_leaves=False: rec('gen_comparison_expr')(w.f.get_boolean_type())
    orig_decl = g.gen_variable_decl
    g.generate_expr = w.real_generate_expr
    return g.generate_expr(etype, only_leaves=False, subtype=subtype)


def c_generate_expr(w, etype, subtype, res, case):
    out = []
    case = dict(case, dispatched=[(n, str(t)) for n, t in w.dispatched][:4])
    for name, t in w.dispatched[:1]:
        ok = assignable(w, t, etype) if subtype else w.ref.snap(t) == w.ref.snap(etype)
        out.append(('C01', Ob('generate_expr|dispatched-type-fits|subtype=%d' % subtype, ok, dict(case, dispatched_type=str(t)))))
        out.append(('C05', Ob('generate_expr|dispatched-type-usable', not t.is_type_constructor(), case)))
        out.append(('C01', Ob('generate_expr|dispatched-type-arguments-within-bounds', w.ref.within_bounds(w.ref.snap(t)),
                              dict(case, dispatched_type=str(t)))))
    if isinstance(res, ast.Variable):
        r = resolve(w, res.name, w.g.namespace)
        out.append(('C05', Ob('generate_expr|introduced-variable-resolves', r is not None, dict(case, name=res.name))))
        if r is not None and w.dispatched:
            d = r[1]
            out.append(('C01', Ob('generate_expr|introduced-variable-type', w.ref.snap(d.get_type()) == w.ref.snap(w.dispatched[0][1]),
                                  dict(case, declared=str(d.get_type())))))
    elif isinstance(res, ast.Constant) and not isinstance(res, Hole):
        pass
    return out


class WouldGenerate(Exception):
    """the unit wants to create a new class / function (a different unit): no verdict on this path"""


def _no_new_decls(w):
    def stop(*a, **k):
        raise WouldGenerate()
    w.g._gen_matching_class = stop
    w.g._gen_matching_func = stop
    w.g.gen_class_decl = stop
    w.g.gen_func_decl = stop


def u_gen_field_access(w, etype, subtype):
    _no_new_decls(w)
    try:
        return w.g.gen_field_access(etype, only_leaves=True, subtype=subtype)
    except WouldGenerate:
        return None


def _receiver_type(w, recv, out, case, unit):
    if isinstance(recv, ast.Variable):
        rr = resolve(w, recv.name, w.g.namespace)
        out.append(('C05', Ob('%s|receiver-resolves-in-scope' % unit, rr is not None, dict(case, receiver=recv.name))))
        if rr is None:
            return None
        if w.g._inside_java_lambda and rr[0] != tuple(w.g.namespace):
            out.append(('C05', Ob('%s|java-lambda-captures-final-only' % unit, bool(getattr(rr[1], 'is_final', False)),
                                  dict(case, receiver=recv.name))))
        return rr[1].get_type()
    if isinstance(recv, Hole):
        t = recv.t
        if isinstance(t, tp.ParameterizedType):
            bad = [a for a in t.type_args if a.is_type_constructor() or (hasattr(a, 'is_primitive') and a.is_primitive())]
            for asp in ('C01', 'C08'):
                out.append((asp, Ob('%s|receiver-type-arguments-usable' % unit, not bad,
                                    dict(case, receiver_type=str(t)))))
        return t
    return None


def inherited(w, cls, attr):
    """own and inherited members of a class of the world (superclasses by declared name)"""
    out, seen = [], set()
    while cls is not None and cls.name not in seen:
        seen.add(cls.name)
        out += list(getattr(cls, attr))
        sup = cls.superclasses[0].class_type.name if cls.superclasses else None
        cls = w.classes.get(sup)
    return out


def c_gen_field_access(w, etype, subtype, res, case):
    out = []
    if res is None:
        return out
    ok_shape = isinstance(res, ast.FieldAccess)
    out.append(('C05', Ob('gen_field_access|returns-field-access', ok_shape, case)))
    if not ok_shape:
        return out
    rt = _receiver_type(w, res.expr, out, case, 'gen_field_access')
    if rt is None:
        return out
    cls = w.classes.get(getattr(rt, 'name', None))
    fld = next((x for x in inherited(w, cls, 'fields') if x.name == res.field), None) if cls is not None else None
    out.append(('C05', Ob('gen_field_access|receiver-class-has-the-field', fld is not None,
                          dict(case, receiver_type=str(rt), field=res.field))))
    if fld is None:
        return out
    ft = fld.get_type()
    if isinstance(rt, tp.ParameterizedType) and cls.type_parameters:
        ft = tp.substitute_type(ft, {p: a for p, a in zip(cls.type_parameters, rt.type_args)})
    ok = assignable(w, ft, etype) if subtype else w.ref.snap(ft) == w.ref.snap(etype)
    out.append(('C01', Ob('gen_field_access|field-type-fits|subtype=%d' % subtype, ok,
                          dict(case, field=res.field, field_type=str(ft)))))
    return out


def u_gen_func_call(w, etype, subtype):
    _no_new_decls(w)
    try:
        return w.g._gen_func_call(etype, only_leaves=True, subtype=subtype)
    except WouldGenerate:
        return None


def c_gen_func_call(w, etype, subtype, res, case):
    out = []
    if res is None:
        return out
    ok_shape = isinstance(res, ast.FunctionCall)
    out.append(('C05', Ob('gen_func_call|returns-call', ok_shape, case)))
    if not ok_shape:
        return out
    fn = None
    m = {}
    if res.receiver is None:
        fn = w.functions.get(res.func) if res.func != 'ma' else None
        out.append(('C05', Ob('gen_func_call|callee-visible-from-scope', fn is not None and fn.name in ('fi', 'fb', 'fg'),
                              dict(case, callee=res.func))))
    else:
        rt = _receiver_type(w, res.receiver, out, case, 'gen_func_call')
        cls = w.classes.get(getattr(rt, 'name', None)) if rt is not None else None
        fn = next((x for x in (inherited(w, cls, 'functions') if cls else []) if x.name == res.func), None)
        out.append(('C05', Ob('gen_func_call|receiver-class-has-the-method', fn is not None,
                              dict(case, receiver_type=str(rt), callee=res.func))))
    if fn is None:
        return out
    # explicit type arguments: one per type parameter, within the bound
    if fn.type_parameters:
        out.append(('C01', Ob('gen_func_call|one-type-argument-per-parameter', len(res.type_args) == len(fn.type_parameters), case)))
        m = {p: a for p, a in zip(fn.type_parameters, res.type_args)}
        for p, a in m.items():
            if p.bound is not None:
                out.append(('C01', Ob('gen_func_call|type-argument-within-bound', assignable(w, a, p.bound),
                                      dict(case, type_argument=str(a), bound=str(p.bound)))))
            for asp in ('C01', 'C08'):
                out.append((asp, Ob('gen_func_call|type-argument-usable',
                                    not a.is_type_constructor() and not (hasattr(a, 'is_primitive') and a.is_primitive()),
                                    dict(case, type_argument=str(a)))))
                if p.bound is not None:
                    out.append((asp, Ob('gen_func_call|type-argument-within-bound|%s' % asp, assignable(w, a, p.bound),
                                        dict(case, type_argument=str(a), bound=str(p.bound)))))
    else:
        out.append(('C01', Ob('gen_func_call|no-type-arguments-for-plain-function', not res.type_args, case)))
    # arity: every parameter without default gets exactly one positional argument, in order
    required = [p for p in fn.params if p.default is None and not p.vararg]
    positional = [a for a in res.args if getattr(a, 'name', None) is None]
    named = [a for a in res.args if getattr(a, 'name', None) is not None]
    out.append(('C05', Ob('gen_func_call|arity-admitted', len(positional) == len(required) and
                          all(a.name in [p.name for p in fn.params if p.default is not None] for a in named),
                          dict(case, callee=fn.name, positional=len(positional), named=[a.name for a in named]))))
    for p, a in zip(required, positional):
        want = tp.substitute_type(p.get_type(), m)
        if isinstance(a.expr, Hole) and a.expr.t is not None:
            out.append(('C01', Ob('gen_func_call|argument-fits-parameter', assignable(w, a.expr.t, want),
                                  dict(case, parameter=p.name, parameter_type=str(want), argument_type=str(a.expr.t)))))
    rett = tp.substitute_type(fn.get_type(), m)
    ok = assignable(w, rett, etype) if subtype else w.ref.snap(rett) == w.ref.snap(etype)
    out.append(('C01', Ob('gen_func_call|result-type-fits|subtype=%d' % subtype, ok,
                          dict(case, callee=fn.name, result_type=str(rett)))))
    return out


def u_gen_lambda(w, etype, subtype):
    g = w.g
    w.entry = dict(namespace=tuple(g.namespace), depth=g.depth, java_lambda=bool(g._inside_java_lambda))
    p = ast.ParameterDeclaration('lp', w.INT)
    g._gen_func_params = lambda: [p]
    g._get_func_ret_type = lambda params, et, not_void=False: et
    w.body_state = {}

    def body(ret_type):
        w.body_state = dict(namespace=tuple(g.namespace), java_lambda=bool(g._inside_java_lambda), depth=g.depth,
                            params_visible='lp' in g.context.get_vars(g.namespace))
        return Hole(ret_type, dict(type=ret_type, subtype=True, gen_bottom=False, exclude_var=False, only_leaves=False))
    g._gen_func_body = body
    return g.gen_lambda(etype=etype)


def c_gen_lambda(w, etype, subtype, res, case):
    out = []
    g = w.g
    ok_shape = isinstance(res, ast.Lambda)
    out.append(('C05', Ob('gen_lambda|returns-lambda', ok_shape, case)))
    if not ok_shape:
        return out
    e, b = w.entry, w.body_state
    case = dict(case, body_namespace=list(b.get('namespace', ())), shadow_name=res.name)
    out.append(('C05', Ob('gen_lambda|body-generated-in-its-own-scope', b.get('namespace') == e['namespace'] + (res.name,), case)))
    out.append(('C05', Ob('gen_lambda|parameters-visible-in-the-body', bool(b.get('params_visible')), case)))
    out.append(('C05', Ob('gen_lambda|java-capture-rule-active-in-the-body', b.get('java_lambda') == (w.lang == 'java'), case)))
    out.append(('C05', Ob('gen_lambda|scope-and-capture-flag-restored', tuple(g.namespace) == e['namespace']
                          and bool(g._inside_java_lambda) == e['java_lambda'], case)))
    out.append(('C05', Ob('gen_lambda|registered-under-its-shadow-name', g.context.get_lambda(e['namespace'], res.name) is res, case)))
    sig = res.signature
    ok = isinstance(sig, tp.ParameterizedType) and len(sig.type_args) == 2 and \
        w.ref.snap(sig.type_args[0]) == w.ref.snap(w.INT) and w.ref.snap(sig.type_args[1]) == w.ref.snap(etype)
    out.append(('C01', Ob('gen_lambda|signature-is-parameter-types-then-result', ok, dict(case, signature=str(sig)))))
    out.append(('C01', Ob('gen_lambda|body-of-the-declared-result-type', isinstance(res.body, Hole) and
                          w.ref.snap(res.body.t) == w.ref.snap(res.ret_type), case)))
    out.append(('C18', Ob('gen_lambda|body-deeper-than-entry', b.get('depth', 0) > e['depth'], case)))
    return out


def u_gen_is_expr(w, etype, subtype):
    return w.g.gen_is_expr(etype, only_leaves=True, subtype=subtype)


def c_gen_is_expr(w, etype, subtype, res, case):
    out = []
    g = w.g
    if isinstance(res, Hole):
        out.append(('C01', Ob('gen_is_expr|fallback-keeps-type', res.req['type'] is etype, case)))
        return out
    ok_shape = isinstance(res, ast.Conditional) and isinstance(res.cond, ast.Is)
    out.append(('C01', Ob('gen_is_expr|shape', ok_shape, case)))
    if not ok_shape:
        return out
    var = res.cond.lexpr if hasattr(res.cond, 'lexpr') else res.cond.children()[0]
    cast_t = res.cond.rexpr if hasattr(res.cond, 'rexpr') else None
    r = resolve(w, var.name, g.namespace)
    out.append(('C05', Ob('gen_is_expr|tested-variable-resolves', r is not None, dict(case, variable=var.name))))
    if r is None:
        return out
    d = r[1]
    case = dict(case, variable=var.name, declared=str(d.get_type()), cast_to=str(cast_t))
    out.append(('C05', Ob('gen_is_expr|only-final-explicitly-typed-locals-are-smart-cast',
                          isinstance(d, ast.VariableDeclaration) and d.is_final and d.var_type is not None, case)))
    if cast_t is not None:
        out.append(('C01', Ob('gen_is_expr|cast-type-is-a-strict-subtype', assignable(w, cast_t, d.get_type())
                              and w.ref.snap(cast_t) != w.ref.snap(d.get_type()), case)))
    reqs = w.requests
    tb = [q for q in reqs if q['namespace'][-1:] == ('true_block',)]
    fb = [q for q in reqs if q['namespace'][-1:] == ('false_block',)]
    out.append(('C05', Ob('gen_is_expr|one-request-per-branch-in-its-own-scope', len(tb) == 1 and len(fb) == 1, case)))
    if tb and cast_t is not None:
        seen = tb[0]['visible'].get(var.name)
        out.append(('C05', Ob('gen_is_expr|variable-has-the-cast-type-in-the-true-branch',
                              seen is not None and w.ref.snap(seen) == w.ref.snap(cast_t), case)))
    if fb:
        seen = fb[0]['visible'].get(var.name)
        out.append(('C05', Ob('gen_is_expr|variable-keeps-its-type-in-the-false-branch',
                              seen is not None and w.ref.snap(seen) == w.ref.snap(d.get_type()), case)))
    now = g.context.get_vars(g.namespace).get(var.name)
    out.append(('C05', Ob('gen_is_expr|smart-cast-does-not-leak', now is d and tuple(g.namespace) == r[0] or
                          (now is d), dict(case, after=str(now.get_type()) if now is not None else None))))
    leftover = g.context.get_vars(tuple(g.namespace) + ('true_block',), only_current=True)
    out.append(('C05', Ob('gen_is_expr|virtual-declaration-removed', var.name not in leftover, case)))
    for q in tb + fb:
        out.append(('C01', Ob('gen_is_expr|branch-requests-the-expected-type', q['type'] is etype, case)))
    return out


def u_gen_matching_func(w, etype, subtype):
    """where a helper function for a type mentioning a type variable of the enclosing class is declared"""
    g = w.g
    T = w.classes['Gg'].type_parameters[0]
    g.namespace = G + ('Gg', 'mm')
    g.context.add_type(G + ('Gg',), T.name, T)
    shapes = [T, w.classes['Gg'].get_type().new([T]), w.classes['Gg'].get_type().new([w.classes['Gg'].get_type().new([T])]),
              w.classes['Aa'].get_type()]
    w.mf_type = shapes[w.pool.index(etype) % len(shapes)]
    w.mf_calls = []

    def gen_func_decl(etype=None, params=None, not_void=False, **kw):
        w.mf_calls.append(dict(namespace=tuple(g.namespace), etype=etype))
        return ast.FunctionDeclaration('helper', [], etype, ast.BottomConstant(etype), ast.FunctionDeclaration.FUNCTION)
    g.gen_func_decl = gen_func_decl
    g._gen_matching_class = lambda *a, **k: 'class-instead'
    return g._gen_matching_func(w.mf_type, not_void=True)


def c_gen_matching_func(w, etype, subtype, res, case):
    out = []
    case = dict(case, requested_type=str(w.mf_type), declared_in=[list(c['namespace']) for c in w.mf_calls])
    for c in w.mf_calls:
        if w.mf_type.has_type_variables():
            out.append(('C05', Ob('gen_matching_func|type-variables-of-the-helper-are-in-scope',
                                  c['namespace'][:2] == G + ('Gg',), case)))
        out.append(('C05', Ob('gen_matching_func|scope-restored', tuple(w.g.namespace) == G + ('Gg', 'mm'), case)))
    return out


def u_gen_class_decl(w, etype, subtype):
    """the bookkeeping of gen_class_decl around its three phases (superclass selection, fields, functions)"""
    g = w.g
    g.namespace = G
    w.phases = []

    def rec(phase, ret):
        def fn(*a, **k):
            name = g.namespace[-1]
            w.phases.append(dict(phase=phase, name=name, blacklisted=name in g._blacklisted_classes,
                                 registered=name in g.context.get_classes(G), namespace=tuple(g.namespace), depth=g.depth))
            return ret
        return fn
    g._select_superclass = rec('select_superclass', None)
    g.gen_class_fields = rec('fields', [])
    g.gen_class_functions = rec('functions', [])
    g.gen_type_params = lambda *a, **k: []
    w.entry = dict(depth=g.depth, blacklist=set(g._blacklisted_classes))
    return g.gen_class_decl()


def c_gen_class_decl(w, etype, subtype, res, case):
    out = []
    g = w.g
    case = dict(case, phases=[(p['phase'], p['blacklisted'], p['registered']) for p in w.phases], declared=getattr(res, 'name', None))
    for p in w.phases:
        out.append(('C05', Ob('gen_class_decl|class-under-construction-is-blacklisted-during-%s' % p['phase'],
                              p['blacklisted'] and p['name'] == res.name, case)))
        out.append(('C05', Ob('gen_class_decl|class-registered-before-%s' % p['phase'], p['registered'], case)))
        out.append(('C05', Ob('gen_class_decl|members-generated-in-the-class-scope', p['namespace'] == G + (res.name,), case)))
    out.append(('C05', Ob('gen_class_decl|blacklist-and-scope-restored', g._blacklisted_classes == w.entry['blacklist']
                          and tuple(g.namespace) == G and g.depth == w.entry['depth'], case)))
    out.append(('C05', Ob('gen_class_decl|fresh-capitalised-name', res.name not in w.classes and res.name[:1].isupper(), case)))
    phases = [p['phase'] for p in w.phases]
    out.append(('C05', Ob('gen_class_decl|interfaces-have-no-fields', ('fields' not in phases) == res.is_interface(), case)))
    return out


# ------------------------------------------------------------------ operator and array expressions
def u_gen_equality_expr(w, etype, subtype):
    return w.g.gen_equality_expr(only_leaves=True)


def _operands(w, res, case, unit, klass, out):
    ok = isinstance(res, klass) and isinstance(res.lexpr, Hole) and isinstance(res.rexpr, Hole)
    out.append(('C05', Ob('%s|returns-binary-expression-over-two-requests' % unit, ok, case)))
    if not ok:
        return None
    out.append(('C01', Ob('%s|operator-valid-for-language' % unit,
                          res.operator in klass.VALID_OPERATORS[w.lang], dict(case, operator=str(res.operator)))))
    return res.lexpr, res.rexpr


def c_gen_equality_expr(w, etype, subtype, res, case):
    out = []
    ops = _operands(w, res, case, 'gen_equality_expr', ast.EqualityExpr, out)
    if ops is None:
        return out
    l, r = ops
    case = dict(case, left=str(l.t), right=str(r.t))
    # both operands are requested with one and the same exact type (javac rejects == on unrelated types)
    out.append(('C01', Ob('gen_equality_expr|operands-of-one-exact-type',
                          l.t is not None and w.ref.snap(l.t) == w.ref.snap(r.t) and not l.req['subtype'] and not r.req['subtype'], case)))
    out.append(('C05', Ob('gen_equality_expr|operand-type-usable', l.t is not None and not l.t.is_type_constructor(), case)))
    if w.lang == 'java':
        out.append(('C01', Ob('gen_equality_expr|java-no-function-typed-operands',
                              not (hasattr(l.t, 'name') and str(l.t.name).startswith('Function')), case)))
    return out


def u_gen_logical_expr(w, etype, subtype):
    return w.g.gen_logical_expr(only_leaves=True)


def c_gen_logical_expr(w, etype, subtype, res, case):
    out = []
    ops = _operands(w, res, case, 'gen_logical_expr', ast.LogicalExpr, out)
    if ops is None:
        return out
    b = w.f.get_boolean_type()
    out.append(('C01', Ob('gen_logical_expr|boolean-operands', all(o.t == b for o in ops),
                          dict(case, left=str(ops[0].t), right=str(ops[1].t)))))
    return out


def u_gen_comparison_expr(w, etype, subtype):
    return w.g.gen_comparison_expr(only_leaves=True)


def c_gen_comparison_expr(w, etype, subtype, res, case):
    out = []
    f = w.f
    klass = ast.EqualityExpr if isinstance(res, ast.EqualityExpr) else ast.ComparisonExpr
    ops = _operands(w, res, case, 'gen_comparison_expr', klass, out)
    if ops is None:
        return out
    l, r = ops
    case = dict(case, left=str(l.t), right=str(r.t), operator=str(res.operator))
    numbers = list(f.get_number_types())
    same = lambda t: (l.t == t and r.t == t)        # noqa: E731
    ok = (l.t in numbers and r.t in numbers) or same(f.get_string_type()) or same(f.get_boolean_type()) or same(f.get_char_type())
    out.append(('C01', Ob('gen_comparison_expr|comparable-operand-types', ok, case)))
    if w.lang == 'java' and (l.t == f.get_string_type() or l.t == f.get_boolean_type()):
        # java has no < on String / Boolean: the generator must fall back to an equality test
        out.append(('C01', Ob('gen_comparison_expr|java-no-ordering-on-string-or-boolean', klass is ast.EqualityExpr, case)))
    return out


def u_gen_array_expr(w, etype, subtype):
    w.array_type = w.f.get_array_type().new([etype])
    return w.g.gen_array_expr(w.array_type, only_leaves=True, subtype=subtype)


def c_gen_array_expr(w, etype, subtype, res, case):
    out = []
    ok = isinstance(res, ast.ArrayExpr)
    out.append(('C05', Ob('gen_array_expr|returns-array-expression', ok, case)))
    if not ok:
        return out
    case = dict(case, array_type=str(res.array_type), length=res.length, elements=[str(getattr(e, 't', e)) for e in res.exprs][:4])
    out.append(('C01', Ob('gen_array_expr|length-matches-elements', res.length == len(res.exprs), case)))
    out.append(('C01', Ob('gen_array_expr|array-type-is-the-expected-one-without-projections',
                          res.array_type == w.array_type.to_variance_free() and not res.array_type.has_wildcards(), case)))
    for e in res.exprs:
        good = isinstance(e, Hole) and e.t is not None and w.ref.snap(e.t) == w.ref.snap(etype) and (e.req['subtype'] == subtype)
        out.append(('C01', Ob('gen_array_expr|element-requested-with-the-element-type', good, case)))
    return out


# ------------------------------------------------------------------ calls through function references, function references
def u_gen_func_call_ref(w, etype, subtype):
    return w.g._gen_func_call_ref(etype, only_leaves=True, subtype=subtype)


def c_gen_func_call_ref(w, etype, subtype, res, case):
    out = []
    if res is None:
        # no reference offers the type: only legitimate when indeed none of the visible ones does
        offers = []
        for name in ('fr', 'fs'):
            r = resolve(w, name, w.g.namespace)
            if r is None:
                continue
            ret = r[1].get_type().type_args[-1]
            if (assignable(w, ret, etype) if subtype else w.ref.snap(ret) == w.ref.snap(etype)):
                if not (w.g._inside_java_lambda and r[0] != tuple(w.g.namespace) and not r[1].is_final):
                    offers.append(name)
        out.append(('C05', Ob('gen_func_call_ref|none-only-when-no-reference-fits', not offers, dict(case, fitting=offers))))
        return out
    ok = isinstance(res, ast.FunctionCall) and res.is_ref_call
    out.append(('C05', Ob('gen_func_call_ref|returns-call-through-reference', ok, case)))
    if not ok:
        return out
    case = dict(case, callee=res.func, receiver=str(res.receiver))
    if res.receiver is None:
        r = resolve(w, res.func, w.g.namespace)
        out.append(('C05', Ob('gen_func_call_ref|reference-resolves', r is not None, case)))
        if r is None:
            return out
        ns, d = r
        sig = d.get_type()
        if w.g._inside_java_lambda and ns != tuple(w.g.namespace):
            out.append(('C05', Ob('gen_func_call_ref|java-lambda-captures-final-only', bool(getattr(d, 'is_final', False)), case)))
    else:
        rt = _receiver_type(w, res.receiver, out, case, 'gen_func_call_ref')
        if rt is None:
            return out
        cls = w.classes.get(getattr(rt, 'name', None))
        fld = {x.name: x for x in inherited(w, cls, 'fields')}.get(res.func) if cls is not None else None
        out.append(('C05', Ob('gen_func_call_ref|field-of-receiver', fld is not None, dict(case, receiver_type=str(rt)))))
        if fld is None:
            return out
        sig = fld.get_type()
    is_fun = getattr(sig, 'is_function_type', lambda: False)()
    out.append(('C01', Ob('gen_func_call_ref|callee-has-function-type', is_fun, dict(case, callee_type=str(sig)))))
    if not is_fun:
        return out
    ret = sig.type_args[-1]
    fits = assignable(w, ret, etype) if subtype else w.ref.snap(ret) == w.ref.snap(etype)
    out.append(('C01', Ob('gen_func_call_ref|result-type-fits|subtype=%d' % subtype, fits, dict(case, result_type=str(ret)))))
    out.append(('C05', Ob('gen_func_call_ref|one-argument-per-parameter', len(res.args) == len(sig.type_args) - 1, case)))
    for a, pt in zip(res.args, sig.type_args[:-1]):
        e = a.expr
        projected = pt.is_wildcard() or (pt.is_parameterized() and pt.has_wildcards())
        if isinstance(e, Hole):
            if projected:
                out.append(('C01', Ob('gen_func_call_ref|bottom-for-projected-parameter', e.req['gen_bottom'], dict(case, parameter=str(pt)))))
            else:
                out.append(('C01', Ob('gen_func_call_ref|argument-fits-parameter', e.t is not None and assignable(w, e.t, pt),
                                      dict(case, parameter=str(pt), argument=str(e.t)))))
    return out


def u_gen_func_ref(w, etype, subtype):
    _no_new_decls(w)
    F = w.f.get_function_type
    A, B, INT = w.classes['Aa'].get_type(), w.classes['Bb'].get_type(), w.INT
    sigs = [F(1).new([INT, INT]), F(2).new([A, INT, B]), F(1).new([INT, B]), F(1).new([A, INT]), F(1).new([B, INT]), F(0).new([w.STR])]
    w.sig = sigs[w.pool.index(etype) % len(sigs)]
    try:
        return w.g._gen_func_ref(w.sig, only_leaves=True)
    except WouldGenerate:
        return None


def c_gen_func_ref(w, etype, subtype, res, case):
    out = []
    case = dict(case, signature=str(w.sig))
    if res is None:
        return out
    ok = isinstance(res, ast.FunctionReference)
    out.append(('C05', Ob('gen_func_ref|returns-function-reference', ok, case)))
    if not ok:
        return out
    case = dict(case, func=res.func, receiver=str(res.receiver))
    if res.receiver is None:
        fn = w.g.context.get_funcs(w.g.namespace).get(res.func)
        out.append(('C05', Ob('gen_func_ref|function-visible', fn is not None, case)))
        m = {}
    else:
        rt = _receiver_type(w, res.receiver, out, case, 'gen_func_ref')
        if rt is None:
            return out
        cls = w.classes.get(getattr(rt, 'name', None))
        fn = {x.name: x for x in inherited(w, cls, 'functions')}.get(res.func) if cls is not None else None
        out.append(('C05', Ob('gen_func_ref|method-of-receiver', fn is not None, dict(case, receiver_type=str(rt)))))
        m = {p: a for p, a in zip(cls.type_parameters, getattr(rt, 'type_args', []))} if cls is not None else {}
    if fn is None:
        return out
    out.append(('C05', Ob('gen_func_ref|not-the-enclosing-function', fn.name != w.g.namespace[-1], case)))
    if fn.type_parameters:
        return out          # a parameterized function is instantiated by the expected signature (unification, C10)
    have = [tp.substitute_type(p.get_type(), m) for p in fn.params] + [tp.substitute_type(fn.get_type(), m)]
    want = list(w.sig.type_args)
    same = len(have) == len(want) and all(w.ref.snap(a) == w.ref.snap(b) for a, b in zip(have, want))
    out.append(('C01', Ob('gen_func_ref|signature-equals-the-expected-one', same,
                          dict(case, declared=[str(x) for x in have], expected=[str(x) for x in want]))))
    return out


def u_select_superclass(w, etype, subtype):
    g = w.g
    g.namespace = G + ('Newcls',)
    # any subset of the inheritable classes may be under construction
    g._blacklisted_classes = {n for n in ('Aa', 'Ab', 'Ii') if bool(w.eng.fresh_bool('under_construction_' + n))}
    w.only_interfaces = w.ref.snap(etype) == w.ref.snap(w.INT)      # reuse the symbolic expected type as a flag
    return g._select_superclass(w.only_interfaces)


def c_select_superclass(w, etype, subtype, res, case):
    out = []
    if res is None:
        return out
    cls = res.super_cls
    case = dict(case, selected=cls.name, only_interfaces=w.only_interfaces, blacklisted=sorted(w.g._blacklisted_classes))
    out.append(('C01', Ob('select_superclass|not-final', not cls.is_final, case)))
    out.append(('C01', Ob('select_superclass|not-under-construction', cls.name not in w.g._blacklisted_classes
                          and cls.name != 'Newcls', case)))
    out.append(('C01', Ob('select_superclass|interface-when-required', cls.is_interface() or not w.only_interfaces, case)))
    inst = res.super_inst
    out.append(('C01', Ob('select_superclass|instantiates-the-selected-class', getattr(inst.class_type, 'name', None) == cls.name, case)))
    if not cls.is_interface():
        out.append(('C05', Ob('select_superclass|one-constructor-argument-per-field',
                              inst.args is not None and len(inst.args) == len(cls.fields), case)))
        m = {p: a for p, a in zip(cls.type_parameters, getattr(inst.class_type, 'type_args', []))}
        for fld, arg in zip(cls.fields, inst.args or []):
            want = tp.substitute_type(fld.get_type(), m)
            if isinstance(arg, Hole) and arg.t is not None:
                out.append(('C01', Ob('select_superclass|argument-fits-field', assignable(w, arg.t, want),
                                      dict(case, field=fld.name, field_type=str(want), argument_type=str(arg.t)))))
    else:
        out.append(('C05', Ob('select_superclass|no-constructor-call-for-interfaces', inst.args is None, case)))
    if isinstance(inst.class_type, tp.ParameterizedType):
        out.append(('C01', Ob('select_superclass|type-arguments-are-types-not-projections',
                              not any(a.is_wildcard() for a in inst.class_type.type_args), case)))
    return out


UNITS = dict(gen_func_call_ref=u_gen_func_call_ref, gen_func_ref=u_gen_func_ref, gen_equality_expr=u_gen_equality_expr, gen_logical_expr=u_gen_logical_expr,
             gen_comparison_expr=u_gen_comparison_expr, gen_array_expr=u_gen_array_expr, gen_variable=u_gen_variable, gen_assignment=u_gen_assignment, gen_conditional=u_gen_conditional,
             gen_new=u_gen_new, gen_variable_decl=u_gen_variable_decl, generate_expr=u_generate_expr,
             gen_field_access=u_gen_field_access, gen_func_call=u_gen_func_call, select_superclass=u_select_superclass, gen_lambda=u_gen_lambda,
             gen_is_expr=u_gen_is_expr, gen_matching_func=u_gen_matching_func, gen_class_decl=u_gen_class_decl)
CHECKS = dict(gen_func_call_ref=c_gen_func_call_ref, gen_func_ref=c_gen_func_ref, gen_equality_expr=c_gen_equality_expr, gen_logical_expr=c_gen_logical_expr,
              gen_comparison_expr=c_gen_comparison_expr, gen_array_expr=c_gen_array_expr, gen_variable=c_gen_variable, gen_assignment=c_gen_assignment, gen_conditional=c_gen_conditional,
              gen_new=c_gen_new, gen_variable_decl=c_gen_variable_decl, generate_expr=c_generate_expr,
              gen_field_access=c_gen_field_access, gen_func_call=c_gen_func_call, select_superclass=c_select_superclass, gen_lambda=c_gen_lambda,
              gen_is_expr=c_gen_is_expr, gen_matching_func=c_gen_matching_func, gen_class_decl=c_gen_class_decl)
FUNCS = dict(gen_func_call_ref=[Generator._gen_func_call_ref, Generator._get_matching_objects],
             gen_func_ref=[Generator._gen_func_ref, Generator._get_matching_function_declarations, Generator._is_sigtype_compatible,
                           Generator._get_matching_class],
             gen_equality_expr=[Generator.gen_equality_expr, Generator.select_type], gen_logical_expr=[Generator.gen_logical_expr],
             gen_comparison_expr=[Generator.gen_comparison_expr], gen_array_expr=[Generator.gen_array_expr],
             gen_variable=[Generator.gen_variable], gen_assignment=[Generator.gen_assignment, Generator._get_assignable_vars,
                                                                     Generator._get_classes_with_assignable_fields],
             gen_conditional=[Generator.gen_conditional], gen_new=[Generator.gen_new, Generator._get_subclass],
             gen_variable_decl=[Generator.gen_variable_decl], generate_expr=[Generator.generate_expr, Generator.get_generators],
             gen_field_access=[Generator.gen_field_access, Generator._get_matching_objects, Generator._get_matching_class],
             select_superclass=[Generator._select_superclass], gen_lambda=[Generator.gen_lambda],
             gen_is_expr=[Generator.gen_is_expr, Generator._filter_subtypes],
             gen_matching_func=[Generator._gen_matching_func], gen_class_decl=[Generator.gen_class_decl],
             gen_func_call=[Generator._gen_func_call, Generator._get_matching_function_declarations,
                            Generator._get_matching_objects, Generator._is_sigtype_compatible])


def harness(eng, lang, unit, aspect, **kw):
    tagged, case = run_unit(eng, lang, unit, **kw)
    eng.notes['sample'] = case
    eng.notes['observe'] = case.get('result')
    obs = [ob for a, ob in tagged if a == aspect]
    if not obs:
        obs = [Ob('no-%s-obligation-on-this-path' % aspect, True)]
    return obs


STUBS = ['src.utils.random -> symbolic RNG (every outcome of every draw)',
         'Generator.generate_expr -> contract stub returning a hole of exactly the requested type (requests recorded)',
         'Generator built-in pools reduced to {Int, String, void}, no function types',
         'for the dispatcher unit: every gen_* sub-generator -> recorder returning a hole']
OUT = ('composition of the unit contracts into whole-program well-typedness (structural induction on the generated tree, '
       'paper argument); Context bookkeeping across units; function references (_gen_func_ref / _gen_func_call_ref), '
       'gen_func_decl bodies and gen_class_decl members beyond the bookkeeping unit (units not built); paths on which '
       'gen_field_access / _gen_func_call would create a new class or function give no verdict; worlds beyond the ones '
       'described; termination of the real recursion')


SCOPE_FREE = ('gen_equality_expr', 'gen_logical_expr', 'gen_comparison_expr', 'gen_array_expr')
CHEAP = ('gen_field_access', 'gen_lambda', 'gen_matching_func', 'gen_class_decl', 'select_superclass', 'gen_logical_expr',
         'gen_array_expr', 'gen_func_call_ref', 'gen_func_ref')


def unit_params(unit, tier, measure=False):
    """world and RNG bounds of one unit job.  The thorough tier runs the same worlds for all four languages and makes two
    more draws symbolic for the units whose quick job is small (measured: the other units do not finish in an hour with
    deeper bounds).  measure=True: the variant used by C18 (smaller scope, symbolic depth counter)."""
    deeper = 2 if (tier != 'quick' and unit in CHEAP) else 0
    if unit in SCOPE_FREE:
        prm = dict(nvars=0, with_nested=False, plain=True, sym_draws=4 + deeper)
    elif unit in ('generate_expr', 'gen_lambda', 'gen_matching_func', 'gen_class_decl', 'select_superclass'):
        prm = dict(nvars=0, with_nested=False, sym_draws=4 + deeper)
    elif unit == 'gen_func_call':
        prm = dict(nvars=0, with_nested=not measure, sym_draws=3)
    elif unit == 'gen_field_access':
        prm = dict(nvars=0, with_nested=not measure, sym_draws=4 + deeper)
    elif unit in ('gen_func_call_ref', 'gen_func_ref'):
        prm = dict(nvars=0, with_nested=False, functional=(unit == 'gen_func_call_ref'),
                   sym_draws=(3 if unit == 'gen_func_call_ref' else 2) + deeper)
    else:
        prm = dict(nvars=1, with_nested=not measure, sym_draws=4)
    return prm


def unit_bounds(prm):
    return ('scope: top-level variable%s of symbolic type (6 pool types) and finality%s%s; expected type (6) and subtype flag '
            'symbolic; every RNG outcome of the first %d draws, later draws take the first element'
            % (' + %d local variable(s)' % prm['nvars'] if prm.get('nvars') else '',
               ', optional nested function scope (java: lambda capture flag symbolic)' if prm.get('with_nested') else '',
               ' -- fixed for this unit, which never looks at the scope' if prm.get('plain') else
               (', function-typed locals fr, fs and a class with a function-typed field' if prm.get('functional') else ''),
               prm['sym_draws']))
