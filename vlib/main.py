"""CLI: vcheck <id> [--tier quick|thorough] [--selftest] | vcheck replay <file>"""
import argparse
import importlib
import json
import os
import sys
import tempfile


def _prepare_import_env():
    # src.args parses sys.argv at import time (hephaestus.py, src.utils import
    # chain is argv-free, but keep argv clean for every module of /repo).
    sys.argv = [sys.argv[0]]
    # src.utils samples its word pool from the (unseeded) stdlib RNG at import time: seed it so that the
    # generated family members carry the same identifiers in every run (and in `vcheck replay`)
    import random
    random.seed(int(os.environ.get('VERIF_SEED', '0') or 0))


def load(pid):
    return importlib.import_module('vlib.props.%s' % pid)


def main():
    argv = sys.argv[1:]
    ap = argparse.ArgumentParser(prog='vcheck')
    ap.add_argument('what')
    ap.add_argument('arg', nargs='?')
    ap.add_argument('--tier', default=os.environ.get('VERIF_TIER', 'quick'))
    ap.add_argument('--selftest', action='store_true')
    ap.add_argument('--only', default=None, help='run only jobs whose name contains this')
    a = ap.parse_args(argv)
    _prepare_import_env()
    seed = int(os.environ.get('VERIF_SEED', '0') or 0)
    from vlib import runner
    if a.what == 'replay':
        with open(a.arg) as f:
            rp = json.load(f)
        mod = load(rp['property'])
        jobs = {j.name: j for t in ('thorough', 'quick') for j in mod.jobs(t)}
        job = jobs[rp['job']]
        if job.setup:
            job.setup()
        ok, why, info = runner.confirm(job, rp)
        print('replay of %s key=%s: %s' % (rp['property'], rp['key'], why))
        print(json.dumps(runner.jsonable(info), indent=1))
        sys.exit(1 if ok else 0)
    pid = a.what
    mod = load(pid)
    tier = a.tier if a.tier in ('quick', 'thorough') else 'quick'
    if a.selftest:
        from vlib import selftest
        sys.exit(selftest.run(pid, mod, seed))
    jobs = mod.jobs(tier)
    if a.only:
        jobs = [j for j in jobs if a.only in j.name]
        # a partial run must not overwrite the evidence of the full check
        os.environ.setdefault('VERIF_EVIDENCE_DIR', os.path.join(tempfile.gettempdir(), 'vcheck-partial-evidence'))
    meta = getattr(mod, 'META', {})
    code = runner.run_property(pid, jobs, tier, seed,
                               level=meta.get('level', 'other'),
                               technique=meta.get('technique', ''),
                               assumptions=meta.get('assumptions', ()),
                               explanation=meta.get('explanation', ''),
                               extra_coverage=meta.get('extra_coverage'),
                               post=getattr(mod, 'post', None))
    sys.exit(code)


if __name__ == '__main__':
    main()
