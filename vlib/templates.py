"""Template program families: small well-typed programs built from selector tuples with the real
IR constructors (kotlin built-ins), for shapes the fixtures and the sampled generator output do
not contain.  Each builder returns (name, Program)."""
from src.ir import ast, types as tp, kotlin_types as kt
from src.ir.context import Context


def _program(decls):
    p = ast.Program(Context(), 'kotlin')
    for d in decls:
        p.add_declaration(d)
    return p


def diamond(f1, f2, declared_full, as_local):
    """class P<T1, T2>(fields using T1 / T2 according to f1, f2); x : (Any | P<String, Int>) = P<String, Int>(..)"""
    T1, T2 = tp.TypeParameter('T1'), tp.TypeParameter('T2')
    fields = []
    if f1:
        fields.append(ast.FieldDeclaration('f1', T1))
    if f2:
        fields.append(ast.FieldDeclaration('f2', T2))
    P = ast.ClassDeclaration('P', [], ast.ClassDeclaration.REGULAR, fields=fields, functions=[],
                             type_parameters=[T1, T2])
    t = P.get_type().new([kt.String, kt.Integer])
    args = []
    if f1:
        args.append(ast.StringConstant('s'))
    if f2:
        args.append(ast.IntegerConstant(1, kt.Integer))
    new = ast.New(P.get_type().new([kt.String, kt.Integer]), args)
    x = ast.VariableDeclaration('x', new, is_final=True, var_type=t if declared_full else kt.Any)
    if as_local:
        foo = ast.FunctionDeclaration('foo', [], kt.Unit, ast.Block([x]), ast.FunctionDeclaration.FUNCTION)
        return 'template/diamond-f%d%d-%s-local' % (f1, f2, 'full' if declared_full else 'any'), _program([P, foo])
    return 'template/diamond-f%d%d-%s-global' % (f1, f2, 'full' if declared_full else 'any'), _program([P, x])


def reassign(declared_any, v1_any, v2_any, in_branch):
    """fun foo(c: Boolean) { var x: (Any|String) = "s"; [if (c)] x = v1 [else x = v2] }"""
    A = ast.ClassDeclaration('A', [], ast.ClassDeclaration.REGULAR, fields=[], functions=[])

    def val(is_any):
        return ast.New(A.get_type(), []) if is_any else ast.StringConstant('t')
    x = ast.VariableDeclaration('x', ast.StringConstant('s'), is_final=False,
                                var_type=kt.Any if declared_any else kt.String)
    a1 = ast.Assignment('x', val(v1_any))
    a2 = ast.Assignment('x', val(v2_any))
    c = ast.ParameterDeclaration('c', kt.Boolean)
    if in_branch:
        body = [x, ast.Conditional(ast.Variable('c'), ast.Block([a1], is_func_block=False),
                                   ast.Block([a2], is_func_block=False), kt.Unit)]
    else:
        body = [x, a1, a2]
    foo = ast.FunctionDeclaration('foo', [c], kt.Unit, ast.Block(body), ast.FunctionDeclaration.FUNCTION)
    return ('template/reassign-%s-%s-%s-%s' % ('any' if declared_any else 'str', 'A' if v1_any else 's',
                                              'A' if v2_any else 's', 'branch' if in_branch else 'seq'),
            _program([A, foo]))


def reassign_top(shape, widen_any):
    """fun bar() { var x: Any = "s"; <shape> } where the shape reassigns x with a value of the top type / a string:
    flat | directly in a branch | in a block branch (the variable is registered in the function's namespace only)"""
    x = ast.VariableDeclaration('x', ast.StringConstant('s'), is_final=False, var_type=kt.Any)
    widen = ast.Assignment('x', ast.New(kt.Any, []) if widen_any else ast.StringConstant('u'), None)
    same = ast.Assignment('x', ast.StringConstant('t'), None)
    if shape == 0:
        stmts = [x, widen]
    elif shape == 1:
        stmts = [x, ast.Conditional(ast.BooleanConstant('true'), widen, same, kt.Unit)]
    elif shape == 2:
        stmts = [x, ast.Conditional(ast.BooleanConstant('true'), same, widen, kt.Unit)]
    else:
        stmts = [x, ast.Conditional(ast.BooleanConstant('true'), ast.Block([widen], is_func_block=False),
                                    ast.Block([same], is_func_block=False), kt.Unit)]
    bar = ast.FunctionDeclaration('bar', [], kt.Unit, ast.Block(stmts), ast.FunctionDeclaration.FUNCTION)
    c = Context()
    c.add_func(ast.GLOBAL_NAMESPACE, bar.name, bar)
    c.add_var(ast.GLOBAL_NAMESPACE + ('bar',), x.name, x)
    return 'template/reassign-top-shape%d-%s' % (shape, 'any' if widen_any else 'str'), ast.Program(c, 'kotlin')


def recursive(with_receiver, calls_self, ret_string):
    """class A { fun foo(): T = [A().]foo() | bar();  fun bar(): T = <constant> }"""
    ret = kt.String if ret_string else kt.Integer
    const = ast.StringConstant('k') if ret_string else ast.IntegerConstant(7, kt.Integer)
    bar = ast.FunctionDeclaration('bar', [], ret, const, ast.FunctionDeclaration.CLASS_METHOD)
    A = ast.ClassDeclaration('A', [], ast.ClassDeclaration.REGULAR, fields=[], functions=[])
    recv = ast.New(A.get_type(), []) if with_receiver else None
    call = ast.FunctionCall('foo' if calls_self else 'bar', [], receiver=recv)
    foo = ast.FunctionDeclaration('foo', [], ret, call, ast.FunctionDeclaration.CLASS_METHOD)
    A.functions = [bar, foo]
    return ('template/recursive-%s-%s-%s' % ('recv' if with_receiver else 'plain', 'self' if calls_self else 'other',
                                             'str' if ret_string else 'int'), _program([A]))


def nested_function(nparams):
    """fun outer(): Unit { fun inner(p1: Int, ..., pn: Int): Int = p1;  inner(1, ..., n) }"""
    params = [ast.ParameterDeclaration('p%d' % i, kt.Integer) for i in range(1, nparams + 1)]
    inner = ast.FunctionDeclaration('inner', params, kt.Integer, ast.Variable('p1'), ast.FunctionDeclaration.FUNCTION)
    call = ast.FunctionCall('inner', [ast.CallArgument(ast.IntegerConstant(i, kt.Integer)) for i in range(1, nparams + 1)])
    x = ast.VariableDeclaration('r', call, is_final=True, var_type=kt.Integer)
    outer = ast.FunctionDeclaration('outer', [], kt.Unit, ast.Block([inner, x]), ast.FunctionDeclaration.FUNCTION)
    return 'template/nested-function-%dparams' % nparams, _program([outer])


def nested_function_generic(projected):
    """class Pair<T1, T2>;  fun outer(): Unit { fun inner(q: Pair<String, Int> | Pair<out String, Int>, n: Int): Int = n;
    val r: Int = inner(Pair<String, Int>(), 2) }  -- a nested function with a parameter type of two type arguments"""
    T1, T2 = tp.TypeParameter('T1'), tp.TypeParameter('T2')
    Pair = ast.ClassDeclaration('Pair', [], ast.ClassDeclaration.REGULAR, fields=[], functions=[], type_parameters=[T1, T2])
    qt = Pair.get_type().new([tp.WildCardType(kt.String, tp.Covariant) if projected else kt.String, kt.Integer])
    params = [ast.ParameterDeclaration('q', qt), ast.ParameterDeclaration('n', kt.Integer)]
    inner = ast.FunctionDeclaration('inner', params, kt.Integer, ast.Variable('n'), ast.FunctionDeclaration.FUNCTION)
    call = ast.FunctionCall('inner', [ast.CallArgument(ast.New(Pair.get_type().new([kt.String, kt.Integer]), [])),
                                      ast.CallArgument(ast.IntegerConstant(2, kt.Integer))])
    r = ast.VariableDeclaration('r', call, is_final=True, var_type=kt.Integer)
    outer = ast.FunctionDeclaration('outer', [], kt.Unit, ast.Block([inner, r]), ast.FunctionDeclaration.FUNCTION)
    return 'template/nested-function-generic-%s' % ('projected' if projected else 'plain'), _program([Pair, outer])


def abstract_generic_method(kind):
    """interface / abstract class I { fun <T, U> convert(x: T): U }  and a regular class with a generic method"""
    T, U = tp.TypeParameter('T'), tp.TypeParameter('U')
    conv = ast.FunctionDeclaration('convert', [ast.ParameterDeclaration('x', T)], U, None,
                                   ast.FunctionDeclaration.CLASS_METHOD, is_final=False, type_parameters=[T, U])
    cls_kind = ast.ClassDeclaration.INTERFACE if kind == 0 else ast.ClassDeclaration.ABSTRACT
    I = ast.ClassDeclaration('Conv', [], cls_kind, fields=[], functions=[conv], is_final=False)
    V, W = tp.TypeParameter('V'), tp.TypeParameter('W')
    ident = ast.FunctionDeclaration('pick', [ast.ParameterDeclaration('a', V), ast.ParameterDeclaration('b', W)], V,
                                    ast.Variable('a'), ast.FunctionDeclaration.CLASS_METHOD, type_parameters=[V, W])
    K = ast.ClassDeclaration('Picker', [], ast.ClassDeclaration.REGULAR, fields=[], functions=[ident])
    return 'template/abstract-generic-method-%s' % ('interface' if kind == 0 else 'abstract'), _program([I, K])


def block_function(with_branch):
    """class Foo; fun ping(): Unit;  fun test(): Foo { ping(); val y: Foo = Foo(); [if (true) Foo() else] Foo() }"""
    Foo = ast.ClassDeclaration('Foo', [], ast.ClassDeclaration.REGULAR, fields=[], functions=[], is_final=False)
    Bar = ast.ClassDeclaration('Bar', [], ast.ClassDeclaration.REGULAR, fields=[], functions=[], is_final=False)
    ping = ast.FunctionDeclaration('ping', [], kt.Unit, ast.Block([]), ast.FunctionDeclaration.FUNCTION)
    y = ast.VariableDeclaration('y', ast.New(Foo.get_type(), []), is_final=True, var_type=Foo.get_type())
    last = ast.New(Foo.get_type(), [])
    if with_branch:
        last = ast.Conditional(ast.BooleanConstant('true'), ast.Block([ast.New(Foo.get_type(), [])], is_func_block=False),
                               ast.Block([ast.New(Foo.get_type(), [])], is_func_block=False), Foo.get_type())
    test = ast.FunctionDeclaration('test', [], Foo.get_type(), ast.Block([ast.FunctionCall('ping', []), y, last]),
                                   ast.FunctionDeclaration.FUNCTION)
    expr = ast.FunctionDeclaration('mk', [], Foo.get_type(), ast.New(Foo.get_type(), []), ast.FunctionDeclaration.FUNCTION)
    return 'template/block-function-%s' % ('branch' if with_branch else 'plain'), _program([Foo, Bar, ping, test, expr])


def scope_without_declarations():
    """fun <T> mk(): T = <bottom>   -- the function's scope holds a type parameter and nothing else"""
    T = tp.TypeParameter('T')
    mk = ast.FunctionDeclaration('mk', [], T, ast.BottomConstant(T), ast.FunctionDeclaration.FUNCTION, type_parameters=[T])
    p = _program([mk])
    p.context.add_type(ast.GLOBAL_NAMESPACE + ('mk',), 'T', T)
    return 'template/scope-without-declarations', p


def generic_call(as_initialiser, widened):
    """fun <T> foo(x: T): Long = 1;  fun bar() { [val r: Long =] foo<Int | Any>(5) }"""
    T = tp.TypeParameter('T')
    foo = ast.FunctionDeclaration('foo', [ast.ParameterDeclaration('x', T)], kt.Long, ast.IntegerConstant(1, kt.Long),
                                  ast.FunctionDeclaration.FUNCTION, type_parameters=[T])
    call = ast.FunctionCall('foo', [ast.CallArgument(ast.IntegerConstant(5, kt.Integer))],
                            type_args=[kt.Any if widened else kt.Integer])
    stmt = ast.VariableDeclaration('r', call, is_final=True, var_type=kt.Long) if as_initialiser else call
    bar = ast.FunctionDeclaration('bar', [], kt.Unit, ast.Block([stmt]), ast.FunctionDeclaration.FUNCTION)
    Q = ast.ClassDeclaration('Qux', [], ast.ClassDeclaration.REGULAR, fields=[], functions=[])
    return ('template/generic-call-%s-%s' % ('init' if as_initialiser else 'stmt', 'any' if widened else 'int'),
            _program([Q, foo, bar]))


def nested_reassign(widen_any, depth2):
    """fun outer(p: String) { fun inner() { var y: Any = p; y = Any() | "t" } }  -- the initialiser comes from the
    enclosing function"""
    y = ast.VariableDeclaration('y', ast.Variable('p'), is_final=False, var_type=kt.Any)
    asg = ast.Assignment('y', ast.New(kt.Any, []) if widen_any else ast.StringConstant('t'), None)
    inner = ast.FunctionDeclaration('inner', [], kt.Unit, ast.Block([y, asg]), ast.FunctionDeclaration.FUNCTION)
    body = [inner]
    if depth2:
        mid = ast.FunctionDeclaration('mid', [], kt.Unit, ast.Block([inner]), ast.FunctionDeclaration.FUNCTION)
        body = [mid]
    outer = ast.FunctionDeclaration('outer', [ast.ParameterDeclaration('p', kt.String)], kt.Unit, ast.Block(body),
                                    ast.FunctionDeclaration.FUNCTION)
    return 'template/nested-reassign-%s-%s' % ('any' if widen_any else 'str', 'deep' if depth2 else 'flat'), _program([outer])


def generic_call_operand(op_kind, targ_bool):
    """fun <T> pick(): T = <bottom>;  val b: Boolean = (pick<Boolean | Any>() == true)  |  val c: Boolean = (pick<Boolean>() && true)
    -- the operand position of an operator gives the call no expected type"""
    T = tp.TypeParameter('T')
    pick = ast.FunctionDeclaration('pick', [], T, ast.BottomConstant(T), ast.FunctionDeclaration.FUNCTION, type_parameters=[T])
    call = ast.FunctionCall('pick', [], type_args=[kt.Boolean if targ_bool else kt.Any])
    if op_kind == 0:
        e = ast.EqualityExpr(call, ast.BooleanConstant('true'), ast.Operator('=='))
    else:
        e = ast.LogicalExpr(call, ast.BooleanConstant('true'), ast.Operator('&&'))
    b = ast.VariableDeclaration('b', e, is_final=True, var_type=kt.Boolean)
    use = ast.FunctionDeclaration('use', [], kt.Unit, ast.Block([b]), ast.FunctionDeclaration.FUNCTION)
    p = _program([pick, use])
    p.context.add_type(ast.GLOBAL_NAMESPACE + ('pick',), 'T', T)
    return 'template/generic-call-operand-%s-%s' % ('eq' if op_kind == 0 else 'and', 'bool' if targ_bool else 'any'), p


def generic_new_null(ctx, untyped_null):
    """class Apple; class Box<T>(val f: T) { fun label(): String = "s" };
    fun use(): String = Box<Apple>(null | Apple()).label()      (ctx 0: receiver position)
    fun use(): Unit { val x: Any = Box<Apple>(null | Apple()) } (ctx 1: declared top type)
    -- with an untyped null nothing but the explicit type argument fixes T"""
    T = tp.TypeParameter('T')
    Apple = ast.ClassDeclaration('Apple', [], ast.ClassDeclaration.REGULAR, fields=[], functions=[])
    label = ast.FunctionDeclaration('label', [], kt.String, ast.StringConstant('s'), ast.FunctionDeclaration.CLASS_METHOD)
    Box = ast.ClassDeclaration('Box', [], ast.ClassDeclaration.REGULAR, fields=[ast.FieldDeclaration('f', T)],
                               functions=[label], type_parameters=[T])
    arg = ast.BottomConstant(None) if untyped_null else ast.New(Apple.get_type(), [])
    new = ast.New(Box.get_type().new([Apple.get_type()]), [arg])
    if ctx == 0:
        use = ast.FunctionDeclaration('use', [], kt.String, ast.FunctionCall('label', [], receiver=new),
                                      ast.FunctionDeclaration.FUNCTION)
    else:
        x = ast.VariableDeclaration('x', new, is_final=True, var_type=kt.Any)
        use = ast.FunctionDeclaration('use', [], kt.Unit, ast.Block([x]), ast.FunctionDeclaration.FUNCTION)
    return ('template/generic-new-%s-%s' % ('receiver' if ctx == 0 else 'top', 'null' if untyped_null else 'value'),
            _program([Apple, Box, use]))


def generic_subclass(forwarding, as_return):
    """class A; class Box<T>(val f: T); class C<T>(f: T) : Box<T | A>(f);  val x: Box<A> = C<A>(A())   (or a function returning it)
    -- a generic subclass that passes its own type parameter on: whether C<..> is related to Box<A> depends on the argument"""
    T, U = tp.TypeParameter('T'), tp.TypeParameter('U')
    A = ast.ClassDeclaration('A', [], ast.ClassDeclaration.REGULAR, fields=[], functions=[])
    Box = ast.ClassDeclaration('Box', [], ast.ClassDeclaration.REGULAR, fields=[ast.FieldDeclaration('f', T)], functions=[],
                               is_final=False, type_parameters=[T])
    sup = Box.get_type().new([U if forwarding else A.get_type()])
    C = ast.ClassDeclaration('C', [ast.SuperClassInstantiation(sup, [ast.Variable('g')])], ast.ClassDeclaration.REGULAR,
                             fields=[ast.FieldDeclaration('g', U if forwarding else A.get_type())], functions=[], type_parameters=[U])
    new = ast.New(C.get_type().new([A.get_type()]), [ast.New(A.get_type(), [])])
    t = Box.get_type().new([A.get_type()])
    if as_return:
        d = ast.FunctionDeclaration('mk', [], t, new, ast.FunctionDeclaration.FUNCTION)
    else:
        d = ast.VariableDeclaration('x', new, is_final=True, var_type=t)
    return ('template/generic-subclass-%s-%s' % ('forwarding' if forwarding else 'fixed', 'return' if as_return else 'variable'),
            _program([A, Box, C, d]))


def name_role(kind):
    """the same identifier `total`, mentioned from the same function `compute`, in different roles:
    0: val total: Int = 1; fun compute(): Int = total        (unique top-level variable)
    1: fun compute(total: Int): Int = total                  (parameter)
    2: val total: Int = 1; fun compute(): Int { val total: Int = 2; return total }   (local shadowing a top-level variable)
    3: fun total(): Int = 1; fun compute(): Int = total()    (top-level function)"""
    decls = []
    one = ast.IntegerConstant(1, kt.Integer)
    if kind in (0, 2):
        decls.append(ast.VariableDeclaration('total', one, is_final=True, var_type=kt.Integer))
    if kind == 3:
        decls.append(ast.FunctionDeclaration('total', [], kt.Integer, one, ast.FunctionDeclaration.FUNCTION))
    if kind == 0:
        f = ast.FunctionDeclaration('compute', [], kt.Integer, ast.Variable('total'), ast.FunctionDeclaration.FUNCTION)
    elif kind == 1:
        f = ast.FunctionDeclaration('compute', [ast.ParameterDeclaration('total', kt.Integer)], kt.Integer, ast.Variable('total'),
                                    ast.FunctionDeclaration.FUNCTION)
    elif kind == 2:
        loc = ast.VariableDeclaration('total', ast.IntegerConstant(2, kt.Integer), is_final=True, var_type=kt.Integer)
        f = ast.FunctionDeclaration('compute', [], kt.Integer, ast.Block([loc, ast.Variable('total')]),
                                    ast.FunctionDeclaration.FUNCTION)
    else:
        f = ast.FunctionDeclaration('compute', [], kt.Integer, ast.FunctionCall('total', []), ast.FunctionDeclaration.FUNCTION)
    decls.append(f)
    return 'template/name-role-%s' % ['global', 'parameter', 'shadowing-local', 'function'][kind], _program(decls)


def super_constructor_operators(op_kind):
    """open class Base(val flag: Boolean); class Derived : Base(1 < 2 | 1 == 2 | true && false);
    fun widths(): Long { val l: Long = 5; val s: Short = 7; return l }   -- operator expressions in a super-constructor call,
    next to integer literals of the wider / narrower integral types"""
    Base = ast.ClassDeclaration('Base', [], ast.ClassDeclaration.REGULAR, fields=[ast.FieldDeclaration('flag', kt.Boolean)],
                                functions=[], is_final=False)
    one, two = ast.IntegerConstant(1, kt.Integer), ast.IntegerConstant(2, kt.Integer)
    if op_kind == 0:
        e = ast.ComparisonExpr(one, two, ast.Operator('<'))
    elif op_kind == 1:
        e = ast.EqualityExpr(one, two, ast.Operator('=='))
    else:
        e = ast.LogicalExpr(ast.BooleanConstant('true'), ast.BooleanConstant('false'), ast.Operator('&&'))
    Derived = ast.ClassDeclaration('Derived', [ast.SuperClassInstantiation(Base.get_type(), [e])], ast.ClassDeclaration.REGULAR,
                                   fields=[], functions=[])
    lv = ast.VariableDeclaration('l', ast.IntegerConstant(5, kt.Long), is_final=True, var_type=kt.Long)
    sv = ast.VariableDeclaration('s', ast.IntegerConstant(7, kt.Short), is_final=True, var_type=kt.Short)
    widths = ast.FunctionDeclaration('widths', [], kt.Long, ast.Block([lv, sv, ast.Variable('l')]), ast.FunctionDeclaration.FUNCTION)
    wide = ast.FunctionDeclaration('wide', [], kt.Long, ast.IntegerConstant(5, kt.Long), ast.FunctionDeclaration.FUNCTION)
    return 'template/super-constructor-%s' % ['comparison', 'equality', 'logical'][op_kind], _program([Base, Derived, widths, wide])


def vararg_parameter(elem_kind):
    """fun collect(n: Int, vararg rows: String | Array<String> | Box<String>): Int = n   -- the declared type of a vararg
    parameter is the array of its elements; the element type may itself be parameterized"""
    decls = []
    if elem_kind == 0:
        elem = kt.String
    elif elem_kind == 1:
        elem = kt.Array.new([kt.String])
    else:
        T = tp.TypeParameter('T')
        Box = ast.ClassDeclaration('Box', [], ast.ClassDeclaration.REGULAR, fields=[], functions=[], type_parameters=[T])
        decls.append(Box)
        elem = Box.get_type().new([kt.String])
    rows = ast.ParameterDeclaration('rows', kt.Array.new([elem]), vararg=True)
    collect = ast.FunctionDeclaration('collect', [ast.ParameterDeclaration('n', kt.Integer), rows], kt.Integer, ast.Variable('n'),
                                      ast.FunctionDeclaration.FUNCTION)
    decls.append(collect)
    return 'template/vararg-parameter-%s' % ['plain', 'array', 'generic'][elem_kind], _program(decls)


def overriding_members(field_overridable, method_open):
    """open class Base(open val x: Int) { open fun f(): Int = 1 };
    class Derived(override val x: Int) : Base(x) { override fun f(): Int = 2 }
    class Picker { fun <V, W> pick(a: V, b: W): V = a };  fun use(): Int = Picker().pick<Int, String>(1, "s")
    -- overriding fields and methods, and a call through a receiver with explicit type arguments"""
    bx = ast.FieldDeclaration('x', kt.Integer, is_final=True, can_override=True)
    bf = ast.FunctionDeclaration('f', [], kt.Integer, ast.IntegerConstant(1, kt.Integer), ast.FunctionDeclaration.CLASS_METHOD,
                                 is_final=False)
    Base = ast.ClassDeclaration('Base', [], ast.ClassDeclaration.REGULAR, fields=[bx], functions=[bf], is_final=False)
    dx = ast.FieldDeclaration('x', kt.Integer, is_final=True, can_override=bool(field_overridable), override=True)
    df = ast.FunctionDeclaration('f', [], kt.Integer, ast.IntegerConstant(2, kt.Integer), ast.FunctionDeclaration.CLASS_METHOD,
                                 is_final=not method_open, override=True)
    Derived = ast.ClassDeclaration('Derived', [ast.SuperClassInstantiation(Base.get_type(), [ast.Variable('x')])],
                                   ast.ClassDeclaration.REGULAR, fields=[dx], functions=[df], is_final=not (field_overridable or method_open))
    V, W = tp.TypeParameter('V'), tp.TypeParameter('W')
    pick = ast.FunctionDeclaration('pick', [ast.ParameterDeclaration('a', V), ast.ParameterDeclaration('b', W)], V,
                                   ast.Variable('a'), ast.FunctionDeclaration.CLASS_METHOD, type_parameters=[V, W])
    Picker = ast.ClassDeclaration('Picker', [], ast.ClassDeclaration.REGULAR, fields=[], functions=[pick])
    call = ast.FunctionCall('pick', [ast.CallArgument(ast.IntegerConstant(1, kt.Integer)), ast.CallArgument(ast.StringConstant('s'))],
                            receiver=ast.New(Picker.get_type(), []), type_args=[kt.Integer, kt.String])
    use = ast.FunctionDeclaration('use', [], kt.Integer, call, ast.FunctionDeclaration.FUNCTION)
    return ('template/overriding-members-%s-%s' % ('openfield' if field_overridable else 'finalfield', 'openmethod' if method_open else 'finalmethod'),
            _program([Base, Derived, Picker, use]))


def generic_return_only(in_param, as_local):
    """fun <T> make(p: Int | T): T = <bottom>;  [fun use() {] val x: String = make<String>(1 | "s") [}]
    -- with a type parameter that occurs in the return type only, nothing but the declared type of x or the explicit type
    argument fixes T: at most one of the two may be erased"""
    T = tp.TypeParameter('T')
    make = ast.FunctionDeclaration('make', [ast.ParameterDeclaration('p', T if in_param else kt.Integer)], T, ast.BottomConstant(T),
                                   ast.FunctionDeclaration.FUNCTION, type_parameters=[T])
    arg = ast.StringConstant('s') if in_param else ast.IntegerConstant(1, kt.Integer)
    call = ast.FunctionCall('make', [ast.CallArgument(arg)], type_args=[kt.String])
    x = ast.VariableDeclaration('x', call, is_final=True, var_type=kt.String)
    if as_local:
        use = ast.FunctionDeclaration('use', [], kt.Unit, ast.Block([x]), ast.FunctionDeclaration.FUNCTION)
        prog = _program([make, use])
    else:
        prog = _program([make, x])
    prog.context.add_type(ast.GLOBAL_NAMESPACE + ('make',), 'T', T)
    return 'template/generic-return-only-%s-%s' % ('inparam' if in_param else 'retonly', 'local' if as_local else 'global'), prog


def local_from_global(widen_any, narrow_global):
    """val g: String | Any = "s";  fun f() { var y: Any = g; y = Any() | "t" }   -- a local variable initialised from a top-level
    variable (declared before the function) of a narrower type"""
    g = ast.VariableDeclaration('g', ast.StringConstant('s'), is_final=True, var_type=kt.String if narrow_global else kt.Any)
    y = ast.VariableDeclaration('y', ast.Variable('g'), is_final=False, var_type=kt.Any)
    asg = ast.Assignment('y', ast.New(kt.Any, []) if widen_any else ast.StringConstant('t'), None)
    f = ast.FunctionDeclaration('f', [], kt.Unit, ast.Block([y, asg]), ast.FunctionDeclaration.FUNCTION)
    return ('template/local-from-global-%s-%s' % ('any' if widen_any else 'str', 'narrow' if narrow_global else 'wide'),
            _program([g, f]))


def groovy_nested_primitive(ret_primitive):
    """(groovy types)  void outer() { int | Integer inner(int n) = n;  int r = inner(1) }   -- a nested function (a closure in
    groovy, a lambda in java) whose return type is a primitive type"""
    from src.ir import groovy_types as gt
    pint = gt.IntegerType(primitive=True)
    rt = pint if ret_primitive else gt.IntegerType(primitive=False)
    inner = ast.FunctionDeclaration('inner', [ast.ParameterDeclaration('n', pint)], rt, ast.Variable('n'),
                                    ast.FunctionDeclaration.FUNCTION)
    call = ast.FunctionCall('inner', [ast.CallArgument(ast.IntegerConstant(1, pint))])
    r = ast.VariableDeclaration('r', call, is_final=True, var_type=rt)
    outer = ast.FunctionDeclaration('outer', [], gt.Void, ast.Block([inner, r]), ast.FunctionDeclaration.FUNCTION)
    p = ast.Program(Context(), 'groovy')
    p.add_declaration(outer)
    return 'template/groovy-nested-%s' % ('primitive' if ret_primitive else 'boxed'), p


_BUILDERS = {}


def build(name):
    """rebuild one template from its constructors (no pickling involved)"""
    if not _BUILDERS:
        all_templates()
    fn, args = _BUILDERS[name]
    return fn(*args)[1]


def _reg(out, fn, *args):
    r = fn(*args)
    _BUILDERS[r[0]] = (fn, args)
    out.append(r)


def all_templates():
    out = []
    for n in (2, 4, 5):
        _reg(out, nested_function, n)
    for k in (0, 1):
        _reg(out, nested_function_generic, k)
        _reg(out, abstract_generic_method, k)
        _reg(out, block_function, k)
    _reg(out, scope_without_declarations)
    for f1 in (0, 1):
        for f2 in (0, 1):
            for full in (0, 1):
                for local in (0, 1):
                    _reg(out, diamond, f1, f2, full, local)
    for d in (0, 1):
        for a in (0, 1):
            for b in (0, 1):
                for br in (0, 1):
                    if not d and (a or b):
                        continue        # var x: String = "s"; x = A()  is ill-typed to begin with
                    _reg(out, reassign, d, a, b, br)
    for shape in range(4):
        for wa in (0, 1):
            _reg(out, reassign_top, shape, wa)
    for r in (0, 1):
        for s_ in (0, 1):
            for t in (0, 1):
                _reg(out, recursive, r, s_, t)
    for i in (0, 1):
        for wd in (0, 1):
            _reg(out, generic_call, i, wd)
            _reg(out, nested_reassign, i, wd)
            _reg(out, generic_new_null, i, wd)
    for fw in (0, 1):
        for r in (0, 1):
            _reg(out, generic_subclass, fw, r)
    for k in range(4):
        _reg(out, name_role, k)
    for k in (0, 1):
        _reg(out, groovy_nested_primitive, k)
    for a in (0, 1):
        for b in (0, 1):
            _reg(out, generic_return_only, a, b)
            _reg(out, local_from_global, a, b)
    for a in (0, 1):
        for b in (0, 1):
            _reg(out, overriding_members, a, b)
    for k in range(3):
        _reg(out, super_constructor_operators, k)
        _reg(out, vararg_parameter, k)
    _reg(out, generic_call_operand, 0, 1)
    _reg(out, generic_call_operand, 0, 0)
    _reg(out, generic_call_operand, 1, 1)
    return out
