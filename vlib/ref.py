"""Reference semantics (trusted base): declarative subtyping, substitution and
well-formedness on *structural snapshots* of hephaestus types.

`snap(t)` reads only data attributes of the real type objects (name,
supertypes, type_args, t_constructor.type_parameters/.supertypes, variance,
bound); no method of src.ir.types is called.  Everything else works on the
resulting hashable tuples.

term ::= ('N',)                                       bottom (both Nothing types)
       | ('B', class_name, name)                      built-in (identity = class)
       | ('S', name)                                  non-generic class
       | ('P', name, (arg, ...))                      instantiation of generic class `name`
       | ('C', name)                                  bare (uninstantiated) generic class
       | ('V', name, bound|None)                      type variable (carries its bound)
       | ('W', variance, bound|None)                  use-site projection / star
Class information lives in a `World`: direct supertypes of S/B terms, and for
generic classes the parameters [(name, variance, bound term)] and declared
supertypes (terms over the parameters); bounds of type variables.
"""
from src.ir import types as tp

INV, CO, CONTRA = 0, 1, 2
BOTTOM = ('N',)


class World:
    def __init__(self, top=None):
        self.supers = {}        # key of S/B term -> tuple of direct supertype terms
        self.generic = {}       # name -> (params, declared supertypes)
        self.varbound = {}      # variable name -> bound term or None
        self.top = top          # term of the language's top type
        self.primitive = set()  # keys of primitive built-ins
        self._memo = {}

    # ------------------------------------------------------------- snapshot
    def snap(self, t, _depth=0):
        if t is None:
            return None
        if isinstance(t, tp.NothingType) or type(t).__name__ == 'NothingType':
            return BOTTOM
        if isinstance(t, tp.WildCardType):
            return ('W', t.variance.value, self.snap(t.bound, _depth + 1) if t.bound is not None else None)
        if _depth > 24:
            raise RecursionError('snapshot deeper than 24 levels (F-bounded or cyclic type)')
        if isinstance(t, tp.TypeParameter):
            b = self.snap(t.bound, _depth + 1) if t.bound is not None else None
            return ('V', t.name, b)
        if isinstance(t, tp.ParameterizedType):
            self._snap_constructor(t.t_constructor, _depth)
            return ('P', _gname(t.t_constructor), tuple(self.snap(a, _depth + 1) for a in t.type_args))
        if isinstance(t, tp.TypeConstructor):
            self._snap_constructor(t, _depth)
            return ('C', _gname(t))
        if isinstance(t, tp.Builtin):
            k = ('B', type(t).__name__, t.name)
            if k not in self.supers:
                self.supers[k] = ()
                self.supers[k] = tuple(self.snap(s, _depth + 1) for s in t.supertypes)
                if getattr(t, 'is_primitive', None) and _is_primitive_data(t):
                    self.primitive.add(k)
            return k
        # SimpleClassifier and other classifiers
        k = ('S', t.name)
        if k not in self.supers:
            self.supers[k] = ()
            self.supers[k] = tuple(self.snap(s, _depth + 1) for s in t.supertypes)
        return k

    def _snap_constructor(self, c, _depth):
        name = _gname(c)
        if name in self.generic:
            return
        self.generic[name] = None
        params = []
        for p in c.type_parameters:
            params.append((p.name, p.variance.value, None))
        self.generic[name] = (tuple(params), ())
        params = tuple((p.name, p.variance.value,
                        self.snap(p.bound, _depth + 1) if p.bound is not None else None)
                       for p in c.type_parameters)
        sups = tuple(self.snap(s, _depth + 1) for s in c.supertypes)
        self.generic[name] = (params, sups)

    # ------------------------------------------------------------ structure
    def subst(self, t, m):
        if t is None:
            return None
        k = t[0]
        if k == 'V':
            if t[1] in m:
                return m[t[1]]
            return ('V', t[1], self.subst(t[2], m))
        if k == 'W':
            return ('W', t[1], self.subst(t[2], m))
        if k == 'P':
            return ('P', t[1], tuple(self.subst(a, m) for a in t[2]))
        return t

    def direct_supers(self, s):
        k = s[0]
        if k == 'P':
            params, sups = self.generic[s[1]]
            m = {p[0]: a for p, a in zip(params, s[2])}
            return tuple(self.subst(u, m) for u in sups)
        if k == 'C':
            return self.generic[s[1]][1]
        if k in ('S', 'B'):
            return self.supers.get(s, ())
        return ()

    def all_supers(self, s):
        seen, todo = [], [s]
        while todo:
            x = todo.pop()
            for u in self.direct_supers(x):
                if u not in seen:
                    seen.append(u)
                    todo.append(u)
        return seen

    def is_top(self, t):
        return self.top is not None and t == self.top

    # ------------------------------------------------------------ subtyping
    def sub(self, s, t):
        key = (s, t)
        r = self._memo.get(key)
        if r is None:
            self._memo[key] = False          # cycles (ill-founded tables) count as not derivable
            r = self._memo[key] = self._sub(s, t)
        return r

    def _sub(self, s, t):
        if s == t:
            return True
        if s == BOTTOM:
            return True
        if s[0] == 'W' or t[0] == 'W':
            if s[0] == 'W' and t[0] == 'W':
                return self.contained(s, t, INV)
            return False
        if self.is_top(t):
            return True
        if s[0] == 'V':
            return s[2] is not None and self.sub(s[2], t)
        if s[0] == 'P' and t[0] == 'P' and s[1] == t[1]:
            params = self.generic[s[1]][0]
            if all(self.contained(a, b, p[1]) for p, a, b in zip(params, s[2], t[2])):
                return True
        return any(self.sub(u, t) for u in self.direct_supers(s))

    def interval(self, a, pv):
        """(lo, hi); None = unbounded end (bottom / top)."""
        if a[0] == 'W':
            if a[2] is None:
                return (None, None)
            if a[1] == CO:
                return (None, None) if pv == CONTRA else (None, a[2])
            if a[1] == CONTRA:
                return (None, None) if pv == CO else (a[2], None)
            a = a[2]
        return {INV: (a, a), CO: (None, a), CONTRA: (a, None)}[pv]

    def contained(self, a, b, pv):
        if pv == INV and a[0] != 'W' and b[0] != 'W':
            return a == b
        (la, ha), (lb, hb) = self.interval(a, pv), self.interval(b, pv)
        lo_ok = True if lb is None else (False if la is None else self.sub(lb, la))
        hi_ok = True if hb is None else (False if ha is None else self.sub(ha, hb))
        # an unbounded upper end is the top type, an unbounded lower end is bottom
        if hb is not None and ha is None:
            hi_ok = self.is_top(hb)
        if lb is not None and la is None:
            lo_ok = lb == BOTTOM
        return lo_ok and hi_ok

    # ------------------------------------------------------ exactness class
    def mentions(self, t, pred):
        if t is None:
            return False
        if pred(t):
            return True
        if t[0] == 'W':
            return self.mentions(t[2], pred)
        if t[0] == 'V':
            return self.mentions(t[2], pred)
        if t[0] == 'P':
            return any(self.mentions(a, pred) for a in t[2])
        return False

    def opposing(self, t):
        """a projection opposing the declaration-site variance occurs in t"""
        if t is None:
            return False
        if t[0] == 'W':
            return self.opposing(t[2])
        if t[0] == 'P':
            params = self.generic[t[1]][0]
            for p, a in zip(params, t[2]):
                if a[0] == 'W' and a[2] is not None and (
                        (a[1] == CO and p[1] == CONTRA) or (a[1] == CONTRA and p[1] == CO)):
                    return True
                if self.opposing(a):
                    return True
        return False

    def in_exact_class(self, t):
        def bad(x):
            return (x[0] in ('V', 'C') or (x[0] == 'W' and x[2] is None) or self.is_top(x)
                    or x in self.primitive or x == BOTTOM)
        if self.mentions(t, bad) or self.opposing(t) or t[0] == 'W':
            return False
        # every instantiation occurring anywhere inside t: its (substituted) supertypes must stay
        # inside the class as well (a projection substituted into a supertype may oppose the
        # variance of the class it lands in)
        for comp in self.components(t):
            for u in self.all_supers(comp):
                if self.is_top(u):
                    continue            # extending the top type is how every hierarchy ends
                if self.mentions(u, bad) or self.opposing(u):
                    return False
        return True

    def components(self, t):
        out = []
        if t is None:
            return out
        if t[0] == 'P':
            out.append(t)
            for a in t[2]:
                out.extend(self.components(a))
        elif t[0] in ('W', 'V'):
            out.extend(self.components(t[2]))
        return out

    def variance_wf(self):
        """declaration-site variance is respected by the declared supertypes and bounds:
        a covariant parameter occurs only in covariant positions, a contravariant one only in
        contravariant positions (projections count as invariant positions -- conservative)."""
        def occ(t, pol, name, want):
            # pol: +1 covariant position, -1 contravariant, 0 invariant
            if t is None:
                return True
            if t[0] == 'V':
                return (t[1] != name or pol == want) and occ(t[2], 0, name, want)
            if t[0] == 'W':
                return occ(t[2], 0, name, want)
            if t[0] == 'P':
                params = self.generic[t[1]][0]
                for p, a in zip(params, t[2]):
                    np_ = {INV: 0, CO: pol, CONTRA: -pol}[p[1]]
                    if not occ(a, np_, name, want):
                        return False
            return True
        for gname, (params, sups) in self.generic.items():
            for p in params:
                if p[1] == INV:
                    continue
                want = 1 if p[1] == CO else -1
                for u in sups:
                    if not occ(u, 1, p[0], want):
                        return False
        return True

    # ------------------------------------------------------- well-formedness
    def within_bounds(self, t):
        """every type argument of every instantiation inside t satisfies its parameter's bound
        (projection: its bound; star: always)"""
        if t is None:
            return True
        if t[0] == 'W':
            return self.within_bounds(t[2])
        if t[0] != 'P':
            return True
        params = self.generic[t[1]][0]
        m = {p[0]: (a[2] if a[0] == 'W' and a[2] is not None else a) for p, a in zip(params, t[2])}
        for p, a in zip(params, t[2]):
            if not self.within_bounds(a):
                return False
            if p[2] is None:
                continue
            if a[0] == 'W':
                if a[2] is None or a[1] == CONTRA:
                    continue
                a = a[2]
            if not self.sub(a, self.subst(p[2], m)):
                return False
        return True


def _gname(c):
    """identity of a generic class: its name; built-in constructor classes (kotlin Array vs the specialised
    arrays, both named "Array") are told apart by their class, as the implementation's == does"""
    if type(c) is tp.TypeConstructor:
        return c.name
    return '%s#%s' % (c.name, type(c).__name__)


def _is_primitive_data(t):
    return bool(getattr(t, 'primitive', False))


def show(t):
    if t is None:
        return '-'
    k = t[0]
    if k == 'N':
        return 'Nothing'
    if k in ('S', 'C'):
        return t[1].split('#')[0]
    if k == 'B':
        return t[2]
    if k == 'V':
        return t[1]
    if k == 'W':
        return '*' if t[2] is None else {0: '', 1: 'out ', 2: 'in '}[t[1]] + show(t[2])
    return '%s<%s>' % (t[1].split('#')[0], ', '.join(show(a) for a in t[2]))
