#!/usr/bin/env python3
"""tools/trial_import.py <property> <k> [<round>] [<history note>] -- confirm a sub-agent's seeded change with
tools/try_seed.sh (scratch worktree: demo, test suite, the property's quick check) and store it, with the outcome,
under /verif/seeded/<property>[-<round>]-<k>/"""
import json, os, re, shutil, subprocess, sys
pid, k = sys.argv[1:3]
rnd = sys.argv[3] if len(sys.argv) > 3 else ''
hist = sys.argv[4] if len(sys.argv) > 4 else ''
src = '/tmp/wt_%s/seed_out' % pid
out = subprocess.run(['/verif/tools/try_seed.sh', pid, src, k], capture_output=True, text=True).stdout
print(out)
m = re.search(r'clean-demo-exit=(\d+) changed-demo-exit=(\d+) tests: .*?(\d+) passed', out)
ok = bool(m) and m.group(1) == '0' and m.group(2) != '0' and m.group(3) == '161' and 'failed' not in out.split('check-exit')[0]
rc = re.search(r'check-exit=(\d+)', out)
keys = sorted(set(re.findall(r'key: (.*)', out)))
if not ok:
    print('NOT CONFIRMED', pid, k)
    sys.exit(3)
status = 'detected' if rc and rc.group(1) == '1' and 'VIOLATION' in out else ('inconclusive' if rc and rc.group(1) == '2' else 'missed')
dst = '/verif/seeded/%s%s-%s' % (pid, ('-' + rnd) if rnd else '', k)
os.makedirs(dst, exist_ok=True)
shutil.copy(os.path.join(src, 'change_%s.diff' % k), os.path.join(dst, 'patch.diff'))
shutil.copy(os.path.join(src, 'demo_%s.py' % k), os.path.join(dst, 'demo.py'))
notes = json.load(open(os.path.join(src, 'notes_%s.json' % k)))
meta = dict(property=pid, summary=notes.get('summary'), needs_to_manifest=notes.get('what_it_needs_to_manifest'),
            files_changed=notes.get('files_changed'), origin='independent sub-agent given only the property text and a scratch worktree',
            confirmed=dict(what_i_ran='tools/try_seed.sh %s <seed dir> %s  (scratch worktree: demo exits 0 on the clean tree and non-zero with '
                                      'the patch; the 161 tests pass with the patch; ./vcheck %s --tier quick pointed at the patched tree)' % (pid, k, pid),
                           tests_pass_with_change=True, demo_fails_with_change=True, demo_passes_without=True),
            check_result=status, detected_by=keys[:6], history=hist)
json.dump(meta, open(os.path.join(dst, 'meta.json'), 'w'), indent=1)
print('imported', dst, status, keys[:3])
