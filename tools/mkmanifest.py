#!/usr/bin/env python3
"""Regenerates MANIFEST.json from the table below (keeps it valid and consistent)."""
import json, os
HERE = os.path.dirname(os.path.dirname(os.path.abspath(__file__)))

CLAIMED = {
 'C19': dict(
    text='Bounded verification by symbolic execution of the real graph_utils functions: edges are solver '
         'booleans, the obligation is the transitive-closure definition as a formula, every feasible path is '
         'closed with an unsat answer. Holds for every digraph up to the stated vertex bound (quick: 3 vertices for all twelve functions, '
         '4 vertices for reachable and, from start vertex 0, bi_reachable, connected, find_all_bi_reachable, find_sources, find_all_paths, '
         'find_longest_paths; thorough: 4 for all twelve functions); nothing is claimed beyond.',
    note='trusted: z3 5.1, the engine proxies (cross-checked by plain-value re-runs on sampled paths and on every '
         'counterexample), the closure/simple-path reference formulas; vertices = dict keys, adjacency via iteration/membership',
    technique='bounded symbolic execution (own path-forking engine over z3) of src/graph_utils.py with symbolic edge bits',
    design='4/C19'),
 'C16': dict(
    text='Bounded verification: the real Context API is executed under a symbolic history of operations (kind of '
         'operation, namespace, name, table, value kind are solver integers) next to a reference scoped map; after the '
         'history every public query from every namespace is compared. Quick: all histories of <= 2 operations plus one '
         'arbitrary operation from every 8-entry state; thorough: K <= 3 and 12-entry states. Within these bounds '
         'exhaustive; the solver mostly enumerates here (few constraints between choices).',
    note='trusted: reference map Ref (vlib/props/C16.py), engine; one declaration kind per name per namespace; '
         'reverse lookup of overwritten / namespace-dropped entries unspecified',
    technique='bounded symbolic execution of src/ir/context.py under a symbolic operation history vs reference map',
    design='4/C16'),
 'C15': dict(
    text='Bounded verification of the driver decision table: real check_oracle/check_oracle_mul run with per-program '
         'flags and per-file compiler verdicts as lazily decided solver booleans; reported/message/saved/cleanup '
         'obligations are formulas over all flags (unexamined ones stay universally quantified). Counter and loop '
         'lemmas (update_stats, stop_condition, get_batches) hold for arbitrary mathematical integers (one inductive '
         'step). Batches <= 2 programs quick, <= 3 thorough; real _run loop for iterations<=6/12 x batch<=3/5. A sequential session of 2 (3) programs through the real '
         'run()/gen_program/process_cp_transformations/process_ncp_transformations with a stand-in ProgramProcessor that fails at a symbolic point per program and the real '
         'JavaCompiler parser on a synthesised javac output (crash bit symbolic): reported <=> tool failure or compiler crash, own message per fault, saved test cases, totals, faults file; one batch of two programs with the real word-pool code on a 6-word pool, every package-name choice symbolic.',
    note='trusted: stand-in compiler with arbitrary verdicts (real parser = C14), real shutil in a temp dir, z3; '
         'process pools, --debug/--rerun/--keep-all outside the claim',
    technique='bounded symbolic execution of hephaestus.py (check_oracle, update_stats, stop_condition, get_batches, '
              '_run) with solver-boolean verdicts; integer lemmas in z3 LIA',
    design='4/C15'),
 'C14': dict(
    text='Layer 1: the live ERROR/CRASH/STACKOVERFLOW patterns of the four compiler classes are translated from '
         "re's own parse tree into z3 regular expressions; acceptance (every error unit of the compiler's line/block "
         'grammar is matched anchored), rejection (text free of the error token is never matched), group-1-is-the-path, '
         'match locality and crash classification are decided as regex inclusion/emptiness queries over strings of '
         'unbounded length. Layer 2: real analyze_compiler_output (base + Groovy override) on batch skeletons with '
         'symbolic kinds/files/filter/crash bits (3 units x 2 files quick, 4 x 3 thorough). Java additionally against '
         'real javac 17 on every erroneous subset of 3 (5) files.',
    note='trusted: z3 sequence solver (no second solver decides these queries here), the 150-line sre->z3 translator '
         '(validated each run on solver-made members/non-members through the real re module), the line grammars '
         '(javac validated against real javac; kotlinc/groovyc/scalac formats from the regex comments); free text must '
         'not contain the per-language tokens; findall composition over a batch argued on paper',
    technique='regex inclusion/emptiness lemmas in z3 on the live patterns + bounded symbolic execution of '
              'analyze_compiler_output + real javac runs',
    design='4/C14'),
 'C06': dict(
    text='(I) Rule lemmas for all type depths: the real _is_type_arg_contained, ParameterizedType/SimpleClassifier/'
         'WildCardType/TypeParameter/Nothing is_subtype run on leaf types whose sub-judgements are z3 atoms; under the '
         'induction hypothesis (impl => decl, resp. <=> on the exactness class) z3 proves result => declarative rule '
         '(resp. <=>) for every truth value of the atoms, every declared variance, projection kind, arity <= 2. '
         '(II) Bounded: real code on every class table with <=3 (thorough 4) classes and generic classes G, H (K), all '
         'pairs of ground types of depth 1 (thorough: depth 2 on <=2 classes) vs the declarative relation; reflexivity and '
         'transitivity reference-free on variance-well-formed tables.',
    note='trusted: declarative relation vlib/ref.py (interval semantics), leaf/atom stubs, z3; the induction gluing the '
         'lemmas is a paper argument; exactness only on the class the statement names',
    technique='assume-guarantee rule lemmas in z3 over the real is_subtype code + bounded symbolic exploration of class '
              'tables vs declarative reference',
    design='4/C06'),
 'C07': dict(
    text='Bounded exhaustive exploration: real TypeConstructor.new / substitute_type / to_variance_free / '
         'to_type_variable_free under a symbolic history (<=2 operations quick, 3 thorough) over 25 class-table shapes '
         '(nested, projected, bounded, foreign-variable supertypes; K<U, V : bound(U)>), arguments drawn from a pool '
         'that includes earlier results (aliasing). Supertypes of every type-variable-free result compared transitively '
         'with an independent substitution on a pre-call snapshot; raw deep snapshots of definitions, arguments and earlier '
         'results compared after every call. The solver only enumerates selectors here.',
    note='trusted: reference substitution in vlib/ref.py, raw snapshot function; constructors with >2 parameters and '
         'deeper nesting outside',
    technique='bounded symbolic exploration of instantiation/substitution histories vs independent substitution on snapshots',
    design='4/C07'),
 'C08': dict(
    text='Lemma: _get_type_arg_variance with declared variance, presence/content of the choice map (solver booleans), both '
         'cfg.dis switches (solver booleans written into the real singleton), in_bound and the RNG draw symbolic: the result is '
         'invariant unless map, switches, declared variance and in_bound all allow the projection (z3 formula per path). Bounded: '
         '_compute_type_variable_assignments / instantiate_type_constructor / instantiate_parameterized_function under a symbolic '
         'RNG (every outcome of every draw) on 6 (thorough 10) parameter-list shapes (bounded, chained T3:T2:T1, T2:G<T1>, variant, '
         'Function-named), 1-3 pools, 4 pre-assignments, 3 variance-choice maps, both switches; one argument per parameter, within '
         'substituted bound (declarative relation), no primitive/bare constructor, requested assignments kept, projection only where allowed.',
    note='trusted: symbolic RNG contract (vlib/symrandom.py), declarative relation; >3 type parameters, larger pools, whole-generator call sites outside',
    technique='symbolic lemma (z3 booleans) + bounded symbolic execution of the instantiation helpers under a symbolic RNG',
    design='4/C08'),
 'C09': dict(
    text='Bounded symbolic execution of find_subtypes and find_irrelevant_type (with the find_supertypes / _construct_related_types / '
         'to_type / get_irrelevant_parameterized_type code they call) under a symbolic RNG on every class table of the bound '
         '(2 classes quick, <=3 thorough; G, H in 5 supertype shapes, optional D<Q> : G<..>), every ground query of depth 1 '
         '(quick: 9 query shapes for the irrelevant search), include_self/concrete_only symbolic; every result judged by the '
         'declarative relation; usable-type and self-iff-asked obligations. Pools of types, of class declarations and with ready-made instantiations of '
         'the generic classes; the irrelevant search also on every non-generic built-in type of the language (quick: java, kotlin) and on type variables bounded by one.',
    note='trusted: symbolic RNG contract, declarative relation; a recorded finding covers queries/results outside the exactness class '
         '(star, top type, opposing projections) where the search inherits the incompleteness of is_subtype; a second one covers primitive numeric queries (java/groovy) answered with Number',
    technique='bounded symbolic execution of the search helpers under a symbolic RNG, judged by a declarative reference relation',
    design='4/C09'),
 'C10': dict(
    text='Lemmas with judgement atoms on the real unify_types (repeated variable => equal components, bounded variable => component '
         'below the bound, projection kinds must agree) for opaque components of any depth; bounded: 18 patterns (<=3 variables, '
         'bounded, repeated, projected, nested) x all ground targets of depth 1 (thorough 2), both matching modes; for every non-empty '
         'answer the real substitute_type applied to the pattern must give the target (or a supertype) up to open variables whose '
         'positions satisfy their bounds, and every assigned type satisfies its variable bound.',
    note='trusted: reference substitution/relation in vlib/ref.py, leaf/atom stubs',
    technique='rule lemmas with z3 atoms + bounded symbolic exploration with substitute-back on structural snapshots',
    design='4/C10'),
 'C17': dict(
    text='Unit level: the lemma on _get_type_arg_variance (all inputs symbolic incl. both switches) and bounded symbolic execution, '
         'under a symbolic RNG with the four switches symbolic, of gen_type_params, select_type, gen_func_decl (header: type '
         'parameters, removal of unused ones), gen_class_decl (header), _create_type_params_from_etype and the type-variable-free rebuilders, '
         'in java and kotlin; the command-line wiring of the four flags (src.args imported in a fresh interpreter for all 16 combinations) '
         '(thorough: all four languages, richer pools): no projection when use-site variance is disabled, no contravariant one when '
         'contravariance is disabled, no bound when bounded type parameters are disabled, no type parameters when parameterized '
         'functions are disabled, function type parameters invariant (also of methods overriding a parameterized method), variant class parameters only for kotlin/scala. A static scan '
         'requires every WildCardType construction site of /repo/src to be covered by an obligation. Whole programs are not explored.',
    note='trusted: symbolic RNG contract; reduced built-in pools and max_type_params=2 are stated bounds; recorded finding: the '
         'type-variable-free rebuilders ignore the use-site-variance switch',
    technique='symbolic lemma + bounded symbolic execution of type-emitting generator units with symbolic switches and RNG; static site scan',
    design='4/C17'),
 'C11': dict(
    text='Bounded symbolic execution of the four real translators over program families (41 repository fixtures + programs of the '
         'real generator for 2 (thorough 5) seeds per language + 50 template programs): for every member and every history of 2 '
         '(thorough <=3) operations (same translator on other members / on the program itself, other-language translators on the program, a '
         'new translator built from the same options dict, an in-place removal of a declared type) the text equals what a fresh translator '
         'produces for the program as it is now and a structural snapshot of the program is '
         'unchanged; separately, for every member, cast_numbers and every outcome of the first 2 (4) random draws the translation '
         'consumes, the text equals the baseline.',
    note='trusted: structural snapshot function, family membership; programs outside the families and longer histories outside',
    technique='bounded symbolic execution of translators under symbolic translation histories and symbolic RNG; differential vs fresh translator',
    design='4/C11'),
 'C13': dict(
    text='Bounded symbolic execution over program families (41 fixtures + generated programs) at the three stages the driver saves '
         '(generated, erased, erased+overwritten): after the real dump_program/load_program round trip the copy translates '
         'identically in four languages, is structurally identical (attribute-level IR diff + context tables + reverse lookup), a second '
         'load of the same file after an in-place change gives the saved program, a second dump is stable and type erasure gives the same '
         'result (template members are rebuilt from constructors so that the original never went through pickle); mutation equivalence: TypeOverwriting.transform runs on the original under a '
         'symbolic RNG (first 1 (thorough 3) draws symbolic: method, node, type parameter), the recorded draws are replayed on the '
         'reloaded copy, candidate-list lengths, outcome, message and resulting IR must coincide.',
    note='trusted: IR diff / snapshot functions (vlib/pipeline.py), family membership; the solver mostly enumerates RNG outcomes here',
    technique='bounded symbolic execution of dump/load round trips and of the mutations under a shared symbolic RNG (record/replay)',
    design='4/C13'),
 'C03': dict(
    text='Bounded exploration of the real TypeErasure over the program families (41 fixtures + generated programs): attribute-level '
         'IR diff before/after must consist only of removed var_type/ret_type, type-argument lists flagged inferable (and the '
         'analysis annotation on call nodes); every removed annotation whose initialiser/body the small reference typer can type must '
         'be a supertype of (or equal to) the re-inferred type; targeted obligations on all members incl. about 90 template programs: the erased type arguments of a call that initialises a variable '
         'must be determined by its arguments or by a kept declared type, type '
         'arguments of an initialising instantiation marked inferable must be determined by constructor parameters or a kept declared type, '
         'reassignments of an erased var must fit the inferred type, a function with an erased return type must not call itself. The dfs feasibility kernel is covered by C19. The solver only selects '
         'members here; the claim is partial (undecided re-inferences are counted in the evidence).',
    note='trusted: vlib/minityper.py (answers only on evident expressions), vlib/pipeline.py irdiff; programs outside the families, '
         'diamond inference and the choice among feasible subsets are outside',
    technique='bounded exploration of TypeErasure over program families: IR-diff frame condition + re-inference by a small reference typer',
    design='4/C03'),
 'C04': dict(
    text='Bounded symbolic execution of the real TypeOverwriting over the program families (as generated and after erasure) under a '
         'symbolic RNG (the first 3 (thorough 4) selection draws of transform(): method, node, type parameter; on the template members also the '
         'first draws of the replacement-type search; quick: one representative per template family): when it reports an injected error the IR diff is '
         'exactly one declared variable type / return type / type argument, old and new type are unrelated in the declarative relation, '
         'the message names old type, new type (for type arguments: the one actually replaced) and node, the recorded type follows the '
         'declared one, the change is visible in the kotlin/scala text, and the reference typer (where it can type the initialiser/body) '
         'rejects the new annotation; when nothing is injected IR and translation are unchanged.',
    note='trusted: vlib/minityper.py, vlib/ref.py, irdiff; fixtures that alias one type object between a declaration and its '
         'initialiser give no verdict; overwritten type arguments are checked for shape only',
    technique='bounded symbolic execution of TypeOverwriting under a symbolic RNG over program families; IR diff + declarative relation + small reference typer',
    design='4/C04'),
 'C12': dict(
    text='Bounded symbolic exploration over program families: for every member, every perturbation kind (declared variable type, '
         'declared return type, diamond flag of an instantiation or generic call, finality, an explicit type argument replaced in place, the override marker and the overridability '
         'of a member (kotlin, scala), the bound of a type parameter) '
         'and every site of that kind (solver integers) the output of one reused translator before/after is compared with a fresh one: the toggle is visible where the target language can '
         'express it, the change starts at the declaration, and user-class tokens of the type occur strictly more often when the '
         'annotation is carried, an override marker / a bound is printed iff carried, kotlin integer literals of non-default integral types keep their conversion when the declared type is omitted; on the unperturbed text every declared class/function/field/parameter/variable/type-parameter/'
         'supertype name and every string/numeric literal occurs, the type parameters of every function occur in the head of its declaration, and brackets/quotes are balanced.',
    note='trusted: token-level scanners and the per-language expressibility table; semantic equivalence of the text is C02 territory',
    technique='bounded symbolic exploration of single-attribute perturbations with metamorphic comparison of translator output + inventory scan',
    design='4/C12'),
 'C01': dict(
    text='Modular (assume-guarantee) unit contracts: gen_variable, gen_assignment, gen_conditional, gen_new, gen_variable_decl, '
         'gen_field_access, _gen_func_call (receivers, arity with defaults, explicit type arguments within bounds), gen_lambda, '
         'gen_is_expr, _select_superclass (no final superclass, none of any symbolic set of classes under construction), the operator and array generators, '
         '_gen_func_call_ref, _gen_func_ref and the generate_expr dispatcher (also on a class with a bounded parameter: narrowed types keep their arguments '
         'within bounds) are executed for real under a symbolic RNG (every outcome of the first 3-6 draws, later draws take the first element) on small symbolic scopes '
         '(variable types, finality, nested scope, expected type and subtype flag are solver values) with the recursive generate_expr '
         'replaced by a contract stub; typing obligations on what each unit builds and on what it requests from the recursion are judged '
         'by the declarative relation. Whole-program well-typedness follows only by a paper induction over the generated tree; '
         'The declaration units: the members of a class (real gen_class_decl with _select_superclass, gen_class_fields, gen_class_functions, '
         '_gen_func_from_existing: abstract members implemented along a two-level chain with a generic superclass, overrides only of open members with '
         'substituted signatures, compatible return / field types, bounds of overridden parameterized methods) and function declarations (defaults, '
         'varargs, return type, body request) are decided on one inheritance world (6 classes) judged by an own walk over the declarations. '
         'paths on which a unit would create a new class or function give no verdict.',
    note='trusted: contract of generate_expr, declarative relation, reduced built-in pools; composition, Context bookkeeping across units and unbuilt units are outside the claim',
    technique='assume-guarantee unit contracts: bounded symbolic execution of generator units under a symbolic RNG with a contract stub for the recursion',
    design='4/C01'),
 'C05': dict(
    text='Same unit harnesses as C01 with scoping/mutability/instantiability obligations (every produced variable reference resolves in an '
         'enclosing scope, java lambdas capture only final variables and never assign captured ones, assignment targets are non-final '
         'variables/fields, only regular classes are instantiated with one argument per field, new declarations are registered under a '
         'fresh name, receivers and callees resolve, call arity admits defaults, lambda bodies get their own scope with the java capture '
         'flag, smart casts do not leak) plus two data obligations: the whole word list against each language keyword file under the case mappings of '
         'gen_identifier, and uniqueness of word() for every choice on a reduced pool. Declaration units (class members, function declarations): members, parameters '
         'and type parameters registered in the right scope, type variables of signatures and fields in scope, vararg last and of an array type, default '
         'values generated outside the function scope, scope/depth/blacklist restored.',
    note='trusted: own scope resolution over the context tables; composition into whole programs is a paper argument',
    technique='assume-guarantee unit contracts under a symbolic RNG + finite data obligation on the identifier pool',
    design='4/C05'),
 'C18': dict(
    text='Decided half: (a) no generator unit raises for any RNG outcome, scope and value of the depth counter (symbolic, max_depth=2), and '
         'the recursion measure holds (incl. the declaration units gen_class_decl / gen_func_decl with their member generators; depth restored on exit, every recursive request deeper than the entry or with the variable generator '
         'excluded, only leaf generators at max depth, constructor arguments cut beyond twice max depth); (b) no pipeline stage (translate, '
         'erase, overwrite under a symbolic RNG, translate) raises on the generated members of the families and on the template programs; (c) the identifier '
         'pool survives every history of word()/reset_word_pool() calls on a reduced pool, and gen_type_params does not raise for any requested count within its precondition. NOT decided: termination and '
         'nesting bound of whole Generator.generate() runs, wall-clock timeouts.',
    note='half of the property only; the undecided half is stated in the evidence and in DESIGN.md',
    technique='bounded symbolic execution: exception freedom + recursion measure of generator units (symbolic RNG and depth), exception freedom of pipeline stages over families',
    design='4/C18'),
}

NOT_YET = 'check not built yet in this round (planned per DESIGN.md build order); not claimed'
NA = {
 'C02': 'judge is the external javac over arbitrary generated compilation units; neither javac nor Java static '
        'semantics can be encoded for a solver within reach (DESIGN.md section 5)',
}
ALL = ['C%02d' % i for i in range(1, 20)]

checks = []
for pid in ALL:
    if pid not in CLAIMED:
        continue
    c = CLAIMED[pid]
    checks.append(dict(
        property_id=pid,
        quick_cmd='./vcheck %s --tier quick' % pid,
        thorough_cmd='./vcheck %s --tier thorough' % pid,
        evidence_file='evidence/%s.json' % pid,
        replay_cmd_template='./vcheck replay {path}',
        engine='symex',
        level_claimed=dict(category=c.get('category', 'other'), text=c['text'], design_ref=c['design']),
        level_note=c['note'],
        technique=c['technique']))
na = []
for pid in ALL:
    if pid in CLAIMED:
        continue
    na.append(dict(property_id=pid, reason=NA.get(pid, NOT_YET)))
m = dict(
    version=1,
    setup_cmd='./vcheck setup',
    hooks=dict(guard='HEPHAESTUS_VERIF', enable='no source hooks: harnesses inject stubs by assignment to module '
               'attributes at run time; ./vcheck exports HEPHAESTUS_VERIF=1 for uniformity',
               baseline_off_cmd='cd /repo && /venv/bin/python -m pytest -ra -q -p no:cacheprovider --timeout=900 '
                                '--continue-on-collection-errors',
               source_commits=[], add_only=True),
    engines=[dict(name='symex', path='vlib/symex.py', serves_properties=sorted(CLAIMED),
                  kind_free_text='path-forking symbolic executor for Python (SymBool/SymInt proxies, re-execution DFS, '
                                 'z3 for branch feasibility and final obligations, 16-process sharding, plain-value '
                                 'replay of every counterexample)')],
    checks=checks,
    notes='Exit codes: 0 holds within bounds; 1 VIOLATION (replay-confirmed on real code); 2 INCONCLUSIVE (budget, '
          'unknown, divergence, unreached witness). known_findings.json lists recorded/fixed defects.',
    not_applicable=na)
with open(os.path.join(HERE, 'MANIFEST.json'), 'w') as f:
    json.dump(m, f, indent=1)
print('claimed', sorted(CLAIMED), 'n/a', [x['property_id'] for x in na])
