#!/bin/bash
# tools/try_seed.sh <property> <dir-with change_k.diff demo_k.py notes_k.json> <k> [tier]
# 1. confirms in a scratch worktree: tests pass with the change, demo fails with / passes without
# 2. applies the change to /repo, runs the property's check, reverts /repo
set -u
PID=$1; DIR=$2; K=$3; TIER=${4:-quick}
WT=$(mktemp -d /tmp/seedwt.XXXXXX); rmdir $WT
git -C /repo worktree add -q --detach $WT HEAD || exit 9
cleanup() { git -C /repo worktree remove --force $WT 2>/dev/null; if [ "${SEED_IN_REPO:-0}" = "1" ]; then git -C /repo checkout -- . 2>/dev/null; fi; }
trap cleanup EXIT
cd $WT
PYTHONPATH=$WT /venv/bin/python $DIR/demo_$K.py $WT >/dev/null 2>&1; D0=$?
git apply $DIR/change_$K.diff || { echo "patch does not apply"; exit 9; }
PYTHONPATH=$WT /venv/bin/python -m pytest -q -p no:cacheprovider tests 2>&1 | tail -1 > /tmp/seed_tests.txt
PYTHONPATH=$WT /venv/bin/python $DIR/demo_$K.py $WT >/tmp/seed_demo.txt 2>&1; D1=$?
echo "clean-demo-exit=$D0 changed-demo-exit=$D1 tests: $(cat /tmp/seed_tests.txt)"
cd /verif
START=$(date +%s)
if [ "${SEED_IN_REPO:-0}" = "1" ]; then
  git -C /repo apply $DIR/change_$K.diff || { echo "patch does not apply to /repo"; exit 9; }
  ./vcheck $PID --tier $TIER > /tmp/seed_check_$PID.txt 2>&1; RC=$?
  git -C /repo checkout -- .
else
  # same check, pointed at the scratch worktree that carries the change (leaves /repo untouched)
  VERIF_REPO=$WT VERIF_EVIDENCE_DIR=/tmp/seed_evidence ./vcheck $PID --tier $TIER > /tmp/seed_check_$PID.txt 2>&1; RC=$?
fi
echo "check-exit=$RC wall=$(( $(date +%s) - START ))s"
grep -E "VIOLATION|key:|INCONCLUSIVE|^$PID" /tmp/seed_check_$PID.txt | head -8 | cut -c1-260
