#!/usr/bin/env python3
"""tools/seed_matrix.py -- markdown table of the seeded changes (from seeded/*/meta.json)"""
import glob, json, os
rows = []
for d in sorted(glob.glob('/verif/seeded/*/')):
    m = json.load(open(os.path.join(d, 'meta.json')))
    det = m.get('detected_by')
    if isinstance(det, list):
        det = '; '.join(det[:2])
    summ = (m.get('summary') or '').replace('\n', ' ').replace('|', '/')
    rows.append('| %s | %s | %s | %s |' % (os.path.basename(d.rstrip('/')), m.get('check_result'), (det or '').replace('|', '/')[:110], summ[:150]))
print('| change | result of the quick check | detected by (obligation keys / job) | what was changed |')
print('|---|---|---|---|')
print('\n'.join(rows))
