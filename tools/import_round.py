#!/usr/bin/env python3
"""tools/import_round.py <property> <k> <round> <status> <detected_by> [<history note>] -- copies a sub-agent's seeded change
(/tmp/wt_<property>/seed_out/{change,demo,notes}_<k>) into /verif/seeded/<property>-<round>-<k>/ with the outcome of the trial"""
import json, os, shutil, sys
pid, k, rnd, status, detected = sys.argv[1:6]
hist = sys.argv[6] if len(sys.argv) > 6 else ''
src = '/tmp/wt_%s/seed_out' % pid
dst = '/verif/seeded/%s-%s-%s' % (pid, rnd, k)
os.makedirs(dst, exist_ok=True)
shutil.copy(os.path.join(src, 'change_%s.diff' % k), os.path.join(dst, 'patch.diff'))
shutil.copy(os.path.join(src, 'demo_%s.py' % k), os.path.join(dst, 'demo.py'))
notes = json.load(open(os.path.join(src, 'notes_%s.json' % k)))
meta = dict(property=pid, summary=notes.get('summary'), needs_to_manifest=notes.get('what_it_needs_to_manifest'),
            files_changed=notes.get('files_changed'), origin='independent sub-agent given only the property text and a scratch worktree',
            confirmed=dict(what_i_ran='tools/try_seed.sh %s %s %s  (scratch worktree: demo exits 0 on the clean tree and non-zero with the patch; '
                                      'the 161 tests pass with the patch; ./vcheck %s --tier quick pointed at the patched tree)' % (pid, src, k, pid),
                           tests_pass_with_change=True, demo_fails_with_change=True, demo_passes_without=True),
            check_result=status, detected_by=[d for d in detected.split(';; ') if d], history=hist)
json.dump(meta, open(os.path.join(dst, 'meta.json'), 'w'), indent=1)
print('imported', dst, status)
