#!/usr/bin/env python3
"""tools/import_seed.py <property> <k> <status> <detected_by> [<history note>] -- copies a sub-agent's seeded change into /verif/seeded/"""
import json, os, shutil, sys
pid, k, status, detected = sys.argv[1:5]
hist = sys.argv[5] if len(sys.argv) > 5 else ''
src = '/tmp/wt_%s/seed_out' % pid
dst = '/verif/seeded/%s-%s' % (pid, k)
os.makedirs(dst, exist_ok=True)
shutil.copy(os.path.join(src, 'change_%s.diff' % k), os.path.join(dst, 'patch.diff'))
shutil.copy(os.path.join(src, 'demo_%s.py' % k), os.path.join(dst, 'demo.py'))
notes = json.load(open(os.path.join(src, 'notes_%s.json' % k)))
meta = dict(property=pid, summary=notes.get('summary'), needs_to_manifest=notes.get('what_it_needs_to_manifest'),
            files_changed=notes.get('files_changed'), origin='independent sub-agent given only the property text and a scratch worktree',
            confirmed=dict(what_i_ran='tools/try_seed.sh %s %s %s  (scratch worktree: demo exits 0 on the clean tree and 1 with the patch; '
                                      'the 161 tests pass with the patch; ./vcheck %s --tier quick pointed at the patched tree)' % (pid, src, k, pid),
                           tests_pass_with_change=True, demo_fails_with_change=True, demo_passes_without=True),
            check_result=status, detected_by=detected, history=hist)
json.dump(meta, open(os.path.join(dst, 'meta.json'), 'w'), indent=1)
print('imported', dst, status)
