#!/bin/bash
# tools/quick_seed.sh <property> <patch> [vcheck args...]: run a check against a scratch worktree carrying a patch
PID=$1; PATCH=$2; shift 2
WT=$(mktemp -d /tmp/seedwt.XXXXXX); rmdir $WT
git -C /repo worktree add -q --detach $WT HEAD || exit 9
trap "git -C /repo worktree remove --force $WT 2>/dev/null" EXIT
git -C $WT apply $PATCH || { echo "patch does not apply"; exit 9; }
cd /verif
VERIF_REPO=$WT VERIF_EVIDENCE_DIR=/tmp/seed_evidence ./vcheck $PID "$@" 2>&1 | grep -E "VIOLATION|key:|INCONCLUSIVE|^$PID" | head -8 | cut -c1-300
